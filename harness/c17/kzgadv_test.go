//go:build verif

package c17

// Adaptive adversary against the batching randomness of the in-circuit KZG
// verifier (std/commitments/kzg FoldProofsMultiPoint / BatchVerifyMultiPoints)
// on the 2-chain (BLS12-377 in BW6-761), stand-alone and through the PLONK
// verifier.
//
// The gadget folds n openings (C_i, H_i, v_i, p_i) with weights 1, r, r^2, ...
// where r = shortHash(C_0,H_0,v_0,p_0, C_1,H_1,v_1,p_1, ...).  The folded check is
//     sum_i r^i * ( C_i - v_i*G + (p_i - tau)*H_i ) = 0 .
// If r did not depend on one kind of component, two openings could be altered
// in that component with changes that cancel under r although neither opening
// is valid.  The adversary computes r natively as the gadget derives it and as
// derivations that leave one kind of component out, and builds for every
// hypothesis the forgery that cancels under it.  Native verification (random
// weights) rejects all of them; so must the gadget.

import (
	"fmt"
	"math/big"
	"math/rand/v2"
	"strings"

	"github.com/consensys/gnark-crypto/ecc"
	bls12377 "github.com/consensys/gnark-crypto/ecc/bls12-377"
	fr377 "github.com/consensys/gnark-crypto/ecc/bls12-377/fr"
	kzg377 "github.com/consensys/gnark-crypto/ecc/bls12-377/kzg"
	"github.com/consensys/gnark/backend/plonk"
	plk_377 "github.com/consensys/gnark/backend/plonk/bls12-377"
	"github.com/consensys/gnark/backend/witness"
	"github.com/consensys/gnark/constraint"
	"github.com/consensys/gnark/frontend"
	"github.com/consensys/gnark/std/algebra/native/sw_bls12377"
	"github.com/consensys/gnark/std/commitments/kzg"
	"github.com/consensys/gnark/std/math/emulated"
	"github.com/consensys/gnark/std/recursion"
	rplonk "github.com/consensys/gnark/std/recursion/plonk"
	"github.com/consensys/gnark/test"

	"github.com/consensys/gnark/verifharness/internal/vcore"
)

type (
	kFR = sw_bls12377.ScalarField
	kG1 = sw_bls12377.G1Affine
	kG2 = sw_bls12377.G2Affine
	kGT = sw_bls12377.GT
)

// opening is one native (digest, quotient, claimed value, point).
type opening struct {
	C, H bls12377.G1Affine
	V, P fr377.Element
}

func cloneOpenings(o []opening) []opening { return append([]opening{}, o...) }

func openingsStr(o []opening) []map[string]string {
	var out []map[string]string
	for _, x := range o {
		out = append(out, map[string]string{"digest": x.C.String(), "quotient": x.H.String(), "claimed_value": x.V.String(), "point": x.P.String()})
	}
	return out
}

// hypotheses about what r is derived from
var kzgHyps = []struct {
	name                                       string
	omitDigest, omitQuot, omitValue, omitPoint bool
}{
	{"r-as-derived", false, false, false, false},
	{"r-omits-claimed-value", false, false, true, false},
	{"r-omits-point", false, false, false, true},
	{"r-omits-digest", true, false, false, false},
	{"r-omits-quotient", false, true, false, false},
}

// deriveR: the gadget's transcript (FoldProofsMultiPoint) with the native
// counterpart of its short hash, optionally leaving one kind of component out.
func deriveR(ops []opening, omitDigest, omitQuot, omitValue, omitPoint bool) fr377.Element {
	h, err := recursion.NewShort(ecc.BW6_761.ScalarField(), ecc.BLS12_377.ScalarField())
	if err != nil {
		panic(err)
	}
	for i := range ops {
		if !omitDigest {
			h.Write(ops[i].C.Marshal())
		}
		if !omitQuot {
			h.Write(ops[i].H.Marshal())
		}
		if !omitValue {
			h.Write(ops[i].V.Marshal())
		}
		if !omitPoint {
			h.Write(ops[i].P.Marshal())
		}
	}
	var r fr377.Element
	r.SetBigInt(new(big.Int).SetBytes(h.Sum(nil)))
	return r
}

func g1Mul(p *bls12377.G1Affine, s *fr377.Element) bls12377.G1Affine {
	var b big.Int
	s.BigInt(&b)
	var out bls12377.G1Affine
	out.ScalarMultiplication(p, &b)
	return out
}

func frPow(r fr377.Element, k int) fr377.Element {
	var out fr377.Element
	out.SetOne()
	for i := 0; i < k; i++ {
		out.Mul(&out, &r)
	}
	return out
}

// forge alters openings a < b in one kind of component so that the two changes
// cancel under weights r^a, r^b.  g = generator, tauG = [tau]g (SRS element 1).
// hTau (point forgery only): discrete logs of the quotients.
func forge(ops []opening, kind string, a, b int, r fr377.Element, k fr377.Element, g, tauG bls12377.G1Affine, hTau []fr377.Element) []opening {
	out := cloneOpenings(ops)
	rho := frPow(r, b-a) // weight(b)/weight(a)
	switch kind {
	case "claimed-value":
		// v_b += k ; v_a -= rho*k
		out[b].V.Add(&out[b].V, &k)
		var t fr377.Element
		t.Mul(&rho, &k)
		out[a].V.Sub(&out[a].V, &t)
	case "digest":
		d := g1Mul(&g, &k)
		out[b].C.Add(&out[b].C, &d)
		var t fr377.Element
		t.Mul(&rho, &k)
		e := g1Mul(&g, &t)
		out[a].C.Sub(&out[a].C, &e)
	case "quotient":
		// dH_a = k*(tau - p_b)*G ; dH_b = -k*(tau - p_a)*G/rho
		pbG := g1Mul(&g, &ops[b].P)
		var da bls12377.G1Affine
		da.Sub(&tauG, &pbG)
		da = g1Mul(&da, &k)
		paG := g1Mul(&g, &ops[a].P)
		var db bls12377.G1Affine
		db.Sub(&tauG, &paG)
		var t fr377.Element
		t.Inverse(&rho).Mul(&t, &k).Neg(&t)
		db = g1Mul(&db, &t)
		out[a].H.Add(&out[a].H, &da)
		out[b].H.Add(&out[b].H, &db)
	case "point":
		// dp_b = k ; dp_a = -rho*k*h_b(tau)/h_a(tau)
		out[b].P.Add(&out[b].P, &k)
		var t fr377.Element
		t.Inverse(&hTau[a]).Mul(&t, &hTau[b]).Mul(&t, &rho).Mul(&t, &k)
		out[a].P.Sub(&out[a].P, &t)
	default:
		panic(kind)
	}
	return out
}

func kindOfHyp(h string) string { return strings.TrimPrefix(h, "r-omits-") }

// ---------------------------------------------------------------- stand-alone gadget

type kzgBatchCircuit struct {
	Digests []kzg.Commitment[kG1]
	Proofs  []kzg.OpeningProof[kFR, kG1]
	Points  []emulated.Element[kFR]
	vk      kzg.VerifyingKey[kG1, kG2] `gnark:"-"`
	capt    *foldCapture
}

// foldCapture receives the folded quotient computed by the gadget (test engine).
type foldCapture struct {
	X, Y *big.Int
	err  error
}

func (c *kzgBatchCircuit) Define(api frontend.API) error {
	v, err := kzg.NewVerifier[kFR, kG1, kG2, kGT](api)
	if err != nil {
		return err
	}
	if c.capt != nil {
		_, fq, err := v.FoldProofsMultiPoint(c.Digests, c.Proofs, c.Points, c.vk)
		if err != nil {
			c.capt.err = err
			return err
		}
		c.capt.X, _ = api.Compiler().ConstantValue(fq.X)
		c.capt.Y, _ = api.Compiler().ConstantValue(fq.Y)
		return nil
	}
	return v.BatchVerifyMultiPoints(c.Digests, c.Proofs, c.Points, c.vk)
}

func testEngineEval(circuit, assignment frontend.Circuit) outcome {
	var err error
	pan, stack := vcore.Catch(func() { err = test.IsSolved(circuit, assignment, ecc.BW6_761.ScalarField()) })
	if pan != nil {
		return outcome{err: fmt.Sprintf("panic: %v\n%s", pan, firstLines(stack, 12)), panicked: true}
	}
	if err != nil {
		return outcome{err: firstLines(err.Error(), 4)}
	}
	return outcome{sat: true}
}

func kzgCircuits(ops []opening, vk kzg377.VerifyingKey, capt *foldCapture) (frontend.Circuit, frontend.Circuit, error) {
	n := len(ops)
	cvk, err := kzg.ValueOfVerifyingKeyFixed[kG1, kG2](vk)
	if err != nil {
		return nil, nil, err
	}
	circuit := &kzgBatchCircuit{Digests: make([]kzg.Commitment[kG1], n), Proofs: make([]kzg.OpeningProof[kFR, kG1], n), Points: make([]emulated.Element[kFR], n), vk: cvk, capt: capt}
	assign := &kzgBatchCircuit{Digests: make([]kzg.Commitment[kG1], n), Proofs: make([]kzg.OpeningProof[kFR, kG1], n), Points: make([]emulated.Element[kFR], n)}
	for i := range ops {
		if assign.Digests[i], err = kzg.ValueOfCommitment[kG1](ops[i].C); err != nil {
			return nil, nil, err
		}
		if assign.Proofs[i], err = kzg.ValueOfOpeningProof[kFR, kG1](kzg377.OpeningProof{H: ops[i].H, ClaimedValue: ops[i].V}); err != nil {
			return nil, nil, err
		}
		assign.Points[i] = sw_bls12377.NewScalar(ops[i].P)
	}
	return circuit, assign, nil
}

func runKzgBatch(ops []opening, vk kzg377.VerifyingKey) outcome {
	c, a, err := kzgCircuits(ops, vk, nil)
	if err != nil {
		return outcome{stage: "convert", err: err.Error()}
	}
	return testEngineEval(c, a)
}

func nativeKzgBatch(ops []opening, vk kzg377.VerifyingKey) (err error, panicked string) {
	ds := make([]kzg377.Digest, len(ops))
	ps := make([]kzg377.OpeningProof, len(ops))
	pts := make([]fr377.Element, len(ops))
	for i := range ops {
		ds[i] = ops[i].C
		ps[i] = kzg377.OpeningProof{H: ops[i].H, ClaimedValue: ops[i].V}
		pts[i] = ops[i].P
	}
	pan, stack := vcore.Catch(func() { err = kzg377.BatchVerifyMultiPoints(ds, ps, pts, vk) })
	if pan != nil {
		return fmt.Errorf("panic: %v", pan), fmt.Sprintf("%v\n%s", pan, stack)
	}
	return err, ""
}

// identifyR: which hypothesis reproduces the gadget's folded quotient
// -(H_0 + r*H_1 + r^2*H_2 ...) ?  "" when none does.
func identifyR(ops []opening, fq *foldCapture) string {
	if fq == nil || fq.X == nil {
		return ""
	}
	for _, h := range kzgHyps {
		r := deriveR(ops, h.omitDigest, h.omitQuot, h.omitValue, h.omitPoint)
		var acc bls12377.G1Affine
		acc = ops[0].H
		w := r
		for i := 1; i < len(ops); i++ {
			t := g1Mul(&ops[i].H, &w)
			acc.Add(&acc, &t)
			w.Mul(&w, &r)
		}
		acc.Neg(&acc)
		var x, y big.Int
		acc.X.BigInt(&x)
		acc.Y.BigInt(&y)
		if x.Cmp(fq.X) == 0 && y.Cmp(fq.Y) == 0 {
			return h.name
		}
	}
	return ""
}

func randFr(rng *rand.Rand) fr377.Element {
	var e fr377.Element
	e.SetBigInt(genericElem(rng, ecc.BLS12_377.ScalarField()))
	return e
}

// planKzg: n polynomials opened at n distinct points under an SRS of known tau.
func (pl *planner) planKzg(rn runner, n int) {
	r := pl.r
	world := fmt.Sprintf("kzg-n=%d", n)
	rng := r.Rand("kzg/" + world)
	field := ecc.BLS12_377.ScalarField()
	tau := genericElem(rng, field)
	srs, err := kzg377.NewSRS(8, tau)
	if err != nil {
		r.Inconclusive("kzg-srs:" + err.Error())
		return
	}
	var tauFr fr377.Element
	tauFr.SetBigInt(tau)
	g, tauG := srs.Pk.G1[0], srs.Pk.G1[1]
	ops := make([]opening, n)
	hTau := make([]fr377.Element, n)
	for i := 0; i < n; i++ {
		poly := make([]fr377.Element, 6)
		for j := range poly {
			poly[j] = randFr(rng)
		}
		ops[i].P = randFr(rng)
		c, e1 := kzg377.Commit(poly, srs.Pk)
		o, e2 := kzg377.Open(poly, ops[i].P, srs.Pk)
		if e1 != nil || e2 != nil {
			r.Inconclusive("kzg-commit-open")
			return
		}
		ops[i].C, ops[i].H, ops[i].V = c, o.H, o.ClaimedValue
		// h_i(tau) = (f_i(tau) - v_i)/(tau - p_i)
		var ft, den fr377.Element
		for j := len(poly) - 1; j >= 0; j-- {
			ft.Mul(&ft, &tauFr).Add(&ft, &poly[j])
		}
		den.Sub(&tauFr, &ops[i].P)
		hTau[i].Sub(&ft, &ops[i].V).Div(&hTau[i], &den)
	}
	pre := "2chain.kzg."
	// which derivation does the gadget use? (read from its folded quotient)
	capt := &foldCapture{}
	if c, a, err := kzgCircuits(ops, srs.Vk, capt); err == nil {
		testEngineEval(c, a)
	}
	id := identifyR(ops, capt)
	if id == "" {
		r.Count(pre+"r-derivation-UNRECOGNISED", 1)
		r.Inconclusive("kzg-batching-randomness-not-reproduced-natively")
	} else {
		r.Count(pre+"gadget-r-reproduced-natively="+id, 1)
		r.Count(pre+"gadget-r-reproduced-natively", 1)
	}

	mk := func(class, name string, o []opening, a, b int) *tcase {
		return &tcase{scheme: "kzg", rn: rn, world: fmt.Sprintf("%s/openings(%d,%d)", world, a, b), class: class, name: name,
			customCfg: fmt.Sprintf("BatchVerifyMultiPoints,openings=%d,altered=(%d,%d),test", n, a, b),
			custom:    func() outcome { return runKzgBatch(o, srs.Vk) },
			native:    func() (error, string) { return nativeKzgBatch(o, srs.Vk) },
			customReplay: map[string]any{"tau": tau.String(), "openings": openingsStr(o), "gadget_r_matches": id},
			spec:         "6-coefficient polynomials, SRS size 8"}
	}
	pl.add(mk("genuine", "openings", ops, 0, 0))
	pairs := [][2]int{{0, 1}}
	if n >= 3 {
		pairs = [][2]int{{0, 1}, {1, 2}, {0, 2}}
	}
	for _, pr := range pairs {
		a, b := pr[0], pr[1]
		for _, h := range kzgHyps {
			rr := deriveR(ops, h.omitDigest, h.omitQuot, h.omitValue, h.omitPoint)
			kinds := []string{kindOfHyp(h.name)}
			if h.name == "r-as-derived" {
				// r of the genuine transcript: every kind of coordinated change must still fail
				kinds = []string{"claimed-value", "point", "digest", "quotient"}
			}
			for _, kind := range kinds {
				k := randFr(rng)
				f := forge(ops, kind, a, b, rr, k, g, tauG, hTau)
				name := h.name
				if h.name == "r-as-derived" {
					name += "/" + kind
				}
				pl.add(mk("coordinated-forgery", name, f, a, b))
			}
		}
	}
	// control: an alteration without coordination (one opening only)
	for b := 0; b < n; b++ {
		k := randFr(rng)
		f := cloneOpenings(ops)
		f[b].V.Add(&f[b].V, &k)
		pl.add(mk("single-edit", "claimed-value+k", f, b, b))
	}
}

// ---------------------------------------------------------------- through the PLONK verifier

// plkTamper runs the real PrepareVerification of every proof, optionally
// records the openings it produced (test engine), optionally adds constants to
// claimed values / digests of the openings, and hands them to the real
// BatchVerifyMultiPoints.  With no deltas it is AssertSameProofs.
type plkTamper struct {
	Proofs    []rplonk.Proof[kFR, kG1, kG2]
	Witnesses []rplonk.Witness[kFR] `gnark:",public"`
	vk        rplonk.VerifyingKey[kFR, kG1, kG2] `gnark:"-"`
	capt      *plkCapture
	dV        map[int]*big.Int
	dC        map[int]*bls12377.G1Affine
}

type plkCapture struct {
	ops []opening
	fq  foldCapture
	err string
}

func elemValue(api frontend.API, e *emulated.Element[kFR]) *big.Int {
	var fp kFR
	v := new(big.Int)
	for i := len(e.Limbs) - 1; i >= 0; i-- {
		l, _ := api.Compiler().ConstantValue(e.Limbs[i])
		v.Lsh(v, fp.BitsPerLimb()).Add(v, l)
	}
	return v.Mod(v, fp.Modulus())
}

func g1Value(api frontend.API, p *kG1) bls12377.G1Affine {
	x, _ := api.Compiler().ConstantValue(p.X)
	y, _ := api.Compiler().ConstantValue(p.Y)
	var out bls12377.G1Affine
	out.X.SetBigInt(x)
	out.Y.SetBigInt(y)
	return out
}

func (c *plkTamper) Define(api frontend.API) error {
	v, err := rplonk.NewVerifier[kFR, kG1, kG2, kGT](api)
	if err != nil {
		return err
	}
	kv, err := kzg.NewVerifier[kFR, kG1, kG2, kGT](api)
	if err != nil {
		return err
	}
	var dgs []kzg.Commitment[kG1]
	var prs []kzg.OpeningProof[kFR, kG1]
	var pts []emulated.Element[kFR]
	for i := range c.Proofs {
		dg, pr, pt, err := v.PrepareVerification(c.vk, c.Proofs[i], c.Witnesses[i], rplonk.WithCompleteArithmetic())
		if err != nil {
			return err
		}
		dgs = append(dgs, dg...)
		prs = append(prs, pr...)
		pts = append(pts, pt...)
	}
	if c.capt != nil {
		for i := range dgs {
			var o opening
			o.C = g1Value(api, &dgs[i].G1El)
			o.H = g1Value(api, &prs[i].Quotient)
			o.V.SetBigInt(elemValue(api, &prs[i].ClaimedValue))
			o.P.SetBigInt(elemValue(api, &pts[i]))
			c.capt.ops = append(c.capt.ops, o)
		}
		_, fq, err := kv.FoldProofsMultiPoint(dgs, prs, pts, c.vk.Kzg)
		if err != nil {
			c.capt.err = err.Error()
			return err
		}
		c.capt.fq.X, _ = api.Compiler().ConstantValue(fq.X)
		c.capt.fq.Y, _ = api.Compiler().ConstantValue(fq.Y)
	}
	if len(c.dV) > 0 || len(c.dC) > 0 {
		f, err := emulated.NewField[kFR](api)
		if err != nil {
			return err
		}
		cr, err := sw_bls12377.NewCurve(api)
		if err != nil {
			return err
		}
		for i, d := range c.dV {
			k := emulated.ValueOf[kFR](d)
			prs[i].ClaimedValue = *f.Add(&prs[i].ClaimedValue, &k)
		}
		for i, d := range c.dC {
			k := kG1{X: d.X.BigInt(new(big.Int)), Y: d.Y.BigInt(new(big.Int))}
			dgs[i].G1El = *cr.Add(&dgs[i].G1El, &k)
		}
	}
	return kv.BatchVerifyMultiPoints(dgs, prs, pts, c.vk.Kzg)
}

func runPlkTamper(in *plkInner, proofs []plonk.Proof, pubs []witness.Witness, capt *plkCapture, dV map[int]*big.Int, dC map[int]*bls12377.G1Affine) outcome {
	n := len(proofs)
	vk, err := rplonk.ValueOfVerifyingKey[kFR, kG1, kG2](in.vk)
	if err != nil {
		return outcome{stage: "convert", err: err.Error()}
	}
	circuit := &plkTamper{vk: vk, capt: capt, dV: dV, dC: dC}
	assign := &plkTamper{}
	for i := 0; i < n; i++ {
		p, e1 := rplonk.ValueOfProof[kFR, kG1, kG2](proofs[i])
		w, e2 := rplonk.ValueOfWitness[kFR](pubs[i])
		if e1 != nil || e2 != nil {
			return outcome{stage: "convert", err: fmt.Sprint(e1, e2)}
		}
		circuit.Proofs = append(circuit.Proofs, rplonk.PlaceholderProof[kFR, kG1, kG2](in.ccs))
		circuit.Witnesses = append(circuit.Witnesses, rplonk.PlaceholderWitness[kFR](in.ccs))
		assign.Proofs = append(assign.Proofs, p)
		assign.Witnesses = append(assign.Witnesses, w)
	}
	return testEngineEval(circuit, assign)
}

// planPlonkKzg: coordinated forgeries through the PLONK verifier.  Of the two
// openings per proof (folded batch opening at zeta, Z at zeta*omega) only the
// quotients are free proof fields: digests, points and claimed values are
// computed in-circuit from transcript-bound data.  So the proof-level forgery
// (AssertProof / AssertSameProofs / AssertDifferentProofs) alters the two
// quotients; forgeries of claimed values and digests are applied between the
// real PrepareVerification and the real BatchVerifyMultiPoints (plkTamper).
func (pl *planner) planPlonkKzg(rn runner, commit string) {
	r := pl.r
	world := "kzgadv/" + commit
	rng := r.Rand("plonk-kzg/" + world)
	field := rn.Inner().ScalarField()
	spec := makeSpec(rng, commit)
	tau := randTau(rng, field)
	A, err := newPlkInner(rn, spec, tau)
	if err != nil {
		r.Inconclusive("plonk-inner-setup:" + err.Error())
		return
	}
	B, err := newPlkInner(rn, sibling(spec, true), tau)
	if err != nil {
		r.Inconclusive("plonk-sibling-setup:" + err.Error())
		return
	}
	x0, s0 := assignFor(rng, spec, field, -1, true)
	x1, s1 := assignFor(rng, spec, field, -1, true)
	xB, sB := assignFor(rng, B.spec, field, -1, true)
	pA0, e0 := A.prove(rn, x0, s0)
	pA1, e1 := A.prove(rn, x1, s1)
	pB, e2 := B.prove(rn, xB, sB)
	if e0 != nil || e1 != nil || e2 != nil {
		r.Inconclusive("plonk-inner-prove")
		return
	}
	w0, w1, wB := pubWitness(rn, x0), pubWitness(rn, x1), pubWitness(rn, xB)
	nvk := A.vk.(*plk_377.VerifyingKey)
	g := nvk.Kzg.G1
	var tauFr fr377.Element
	tauFr.SetBigInt(tau)
	tauG := g1Mul(&g, &tauFr)
	pre := "2chain.plonk."

	// openings as the PLONK verifier produces them
	capture := func(in *plkInner, proofs []plonk.Proof, pubs []witness.Witness) (*plkCapture, bool) {
		c := &plkCapture{}
		o := runPlkTamper(in, proofs, pubs, c, nil, nil)
		if !o.sat || len(c.ops) != 2*len(proofs) {
			r.Inconclusive("plonk-kzg-capture-failed:" + o.err)
			return nil, false
		}
		id := identifyR(c.ops, &c.fq)
		if id == "" {
			r.Count(pre+"kzg-r-derivation-UNRECOGNISED", 1)
			r.Inconclusive("kzg-batching-randomness-not-reproduced-natively")
		} else {
			r.Count(pre+"kzg-gadget-r-reproduced-natively="+id, 1)
			r.Count(pre+"kzg-gadget-r-reproduced-natively", 1)
		}
		return c, true
	}
	cA, ok1 := capture(A, []plonk.Proof{pA0}, []witness.Witness{w0})
	cAA, ok2 := capture(A, []plonk.Proof{pA0, pA1}, []witness.Witness{w0, w1})
	cB, ok3 := capture(B, []plonk.Proof{pB}, []witness.Witness{wB})
	if !ok1 || !ok2 || !ok3 {
		return
	}
	cAB := &plkCapture{ops: append(cloneOpenings(cA.ops), cB.ops...)} // AssertDifferentProofs(A-proof, B-proof)

	// shift the quotients of a native proof: opening 2i = BatchedProof.H, 2i+1 = ZShiftedOpening.H of proof i
	withQuotients := func(proofs []plonk.Proof, genuine, forged []opening) []plonk.Proof {
		out := make([]plonk.Proof, len(proofs))
		for i := range proofs {
			q := *(proofs[i].(*plk_377.Proof))
			q.Bsb22Commitments = append([]bls12377.G1Affine{}, q.Bsb22Commitments...)
			q.BatchedProof.ClaimedValues = append([]fr377.Element{}, q.BatchedProof.ClaimedValues...)
			var d bls12377.G1Affine
			d.Sub(&forged[2*i].H, &genuine[2*i].H)
			q.BatchedProof.H.Add(&q.BatchedProof.H, &d)
			d.Sub(&forged[2*i+1].H, &genuine[2*i+1].H)
			q.ZShiftedOpening.H.Add(&q.ZShiftedOpening.H, &d)
			out[i] = &q
		}
		return out
	}
	proofCase := func(name string, cfg plkcfg, ins []*plkInner, keys []*plkInner, sels []int, proofs []plonk.Proof, pubs [][]*big.Int) *tcase {
		pc := &plkCase{mode: cfg.mode, complete: cfg.complete, engine: "test", shapeK: world + "/" + name, proofs: proofs}
		var pws []witness.Witness
		for _, p := range pubs {
			pws = append(pws, pubWitness(rn, p))
		}
		pc.pubs = pws
		if cfg.mode == "switch" {
			for _, k := range keys {
				pc.vks = append(pc.vks, k.vk)
				pc.vkCcs = append(pc.vkCcs, k.ccs)
			}
			pc.sels = sels
			pc.base = keys[sels[0]].vk
		} else {
			pc.vks = []plonk.VerifyingKey{ins[0].vk}
			pc.vkCcs = []constraint.ConstraintSystem{ins[0].ccs}
			pc.sels = make([]int, len(proofs))
		}
		return &tcase{scheme: "plonk", rn: rn, world: world, class: "coordinated-forgery", name: name, plk: pc, pubs: pubs, spec: spec.String(),
			native: func() (error, string) {
				for i := range proofs {
					if err, pan := nativePlonk(rn, proofs[i], ins[i].vk, pws[i]); err != nil || pan != "" {
						return err, pan
					}
				}
				return nil, ""
			}}
	}
	type target struct {
		label  string
		cfg    plkcfg
		capt   *plkCapture
		ins    []*plkInner
		keys   []*plkInner
		sels   []int
		proofs []plonk.Proof
		pubs   [][]*big.Int
		pairs  [][2]int
	}
	targets := []target{
		{"AssertProof(fixed)", plkcfg{"fixed", true}, cA, []*plkInner{A}, nil, nil, []plonk.Proof{pA0}, [][]*big.Int{x0}, [][2]int{{0, 1}}},
		{"AssertProof(witness)", plkcfg{"witness", false}, cA, []*plkInner{A}, nil, nil, []plonk.Proof{pA0}, [][]*big.Int{x0}, [][2]int{{0, 1}}},
		{"AssertSameProofs", plkcfg{"same", true}, cAA, []*plkInner{A, A}, nil, nil, []plonk.Proof{pA0, pA1}, [][]*big.Int{x0, x1}, [][2]int{{0, 1}, {1, 2}, {0, 3}}},
		{"AssertDifferentProofs", plkcfg{"switch", true}, cAB, []*plkInner{A, B}, []*plkInner{A, B}, []int{0, 1}, []plonk.Proof{pA0, pB}, [][]*big.Int{x0, xB}, [][2]int{{0, 1}, {1, 2}, {2, 3}}},
	}
	for _, tg := range targets {
		// genuine control through the same path
		gc := proofCase("through-"+tg.label, tg.cfg, tg.ins, tg.keys, tg.sels, tg.proofs, tg.pubs)
		gc.class = "genuine"
		pl.add(gc)
		for _, pr := range tg.pairs {
			for _, hyp := range []string{"r-as-derived", "r-omits-quotient"} {
				var rr fr377.Element
				if hyp == "r-as-derived" {
					rr = deriveR(tg.capt.ops, false, false, false, false)
				} else {
					rr = deriveR(tg.capt.ops, false, true, false, false)
				}
				f := forge(tg.capt.ops, "quotient", pr[0], pr[1], rr, randFr(rng), g, tauG, nil)
				name := hyp
				if hyp == "r-as-derived" {
					name += "/quotient"
				}
				c := proofCase(name, tg.cfg, tg.ins, tg.keys, tg.sels, withQuotients(tg.proofs, tg.capt.ops, f), tg.pubs)
				c.customReplay = map[string]any{"through": tg.label, "altered_openings": fmt.Sprint(pr), "tau": tau.String()}
				c.world = fmt.Sprintf("%s/%s/openings(%d,%d)", world, tg.label, pr[0], pr[1])
				pl.add(c)
			}
		}
	}

	// claimed values / digests of the PLONK-derived openings: between PrepareVerification and BatchVerifyMultiPoints
	tamper := func(label string, in *plkInner, proofs []plonk.Proof, pws []witness.Witness, pubs [][]*big.Int, capt *plkCapture, pairs [][2]int) {
		for _, pr := range pairs {
			for _, h := range kzgHyps {
				kind := kindOfHyp(h.name)
				kinds := []string{kind}
				if h.name == "r-as-derived" {
					kinds = []string{"claimed-value", "digest"}
				} else if kind != "claimed-value" && kind != "digest" {
					continue
				}
				for _, kd := range kinds {
					rr := deriveR(capt.ops, h.omitDigest, h.omitQuot, h.omitValue, h.omitPoint)
					f := forge(capt.ops, kd, pr[0], pr[1], rr, randFr(rng), g, tauG, nil)
					dV := map[int]*big.Int{}
					dC := map[int]*bls12377.G1Affine{}
					for _, i := range pr {
						if kd == "claimed-value" {
							var d fr377.Element
							d.Sub(&f[i].V, &capt.ops[i].V)
							dV[i] = d.BigInt(new(big.Int))
						} else {
							var d bls12377.G1Affine
							d.Sub(&f[i].C, &capt.ops[i].C)
							dC[i] = &d
						}
					}
					name := h.name
					if h.name == "r-as-derived" {
						name += "/" + kd
					}
					ff := f
					pl.add(&tcase{scheme: "plonk", rn: rn, world: fmt.Sprintf("%s/%s/openings(%d,%d)", world, label, pr[0], pr[1]), class: "coordinated-forgery(openings-tampered-after-PrepareVerification)", name: name,
						customCfg: fmt.Sprintf("PrepareVerification+BatchVerifyMultiPoints(%s),altered=(%d,%d),test", label, pr[0], pr[1]),
						custom:    func() outcome { return runPlkTamper(in, proofs, pws, nil, dV, dC) },
						native:    func() (error, string) { return nativeKzgBatch(ff, nvk.Kzg) },
						pubs:      pubs, spec: spec.String(),
						customReplay: map[string]any{"tau": tau.String(), "openings": openingsStr(ff)}})
				}
			}
		}
	}
	tamper("one proof", A, []plonk.Proof{pA0}, []witness.Witness{w0}, [][]*big.Int{x0}, cA, [][2]int{{0, 1}})
	tamper("two proofs", A, []plonk.Proof{pA0, pA1}, []witness.Witness{w0, w1}, [][]*big.Int{x0, x1}, cAA, [][2]int{{0, 2}, {1, 3}})
}
