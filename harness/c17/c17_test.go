//go:build verif

// C17 — Recursive in-circuit verifiers accept exactly what the native verifiers
// accept.  Adversarial-execution monitor: genuine, replayed and perturbed inner
// (proof, verifying key, public witness) triples are given both to the native
// verifier (configured with the recursion packages' native options) and to the
// in-circuit verifier (std/recursion/groth16, std/recursion/plonk, with the KZG
// and Pedersen gadgets underneath); the outer circuit must be satisfiable
// exactly when the native verifier returns nil.
package c17

import (
	"bytes"
	"fmt"
	"io"
	"math/big"
	"math/rand/v2"
	"os"
	"os/exec"
	"path/filepath"
	"sort"
	"strings"
	"sync"
	"syscall"
	"testing"
	"time"

	"github.com/consensys/gnark/backend/groth16"
	"github.com/consensys/gnark/backend/plonk"
	"github.com/consensys/gnark/backend/witness"
	"github.com/consensys/gnark/constraint"

	"github.com/consensys/gnark/verifharness/curves"
	"github.com/consensys/gnark/verifharness/internal/circuits"
	"github.com/consensys/gnark/verifharness/internal/cvapi"
	"github.com/consensys/gnark/verifharness/internal/vcore"
)

const hangSignature = "emulated-verifier-does-not-terminate/halfGCDEisenstein"

// tcase is one triple in one verifier configuration.
type tcase struct {
	scheme string // groth16 | plonk
	rn     runner
	world  string
	class  string
	name   string
	g16    *g16Case
	plk    *plkCase
	// oracle
	native func() (error, string)
	// documented exemptions
	exemptAcceptOnly string // in-circuit may accept although native rejects (documented missing check)
	exemptRejectOnly string // in-circuit may reject although native accepts (documented exceptional domain)
	trivial          bool
	pubs             [][]*big.Int
	spec             string
	// custom cases (KZG adversary): own evaluation, configuration label and replay data
	custom       func() outcome
	customCfg    string
	customReplay map[string]any
}

func (c *tcase) cfg() string {
	if c.custom != nil {
		return c.customCfg
	}
	if c.g16 != nil {
		return fmt.Sprintf("%s,complete=%v,subgroup=%v,%s", c.g16.mode, c.g16.complete, c.g16.subgroup, c.g16.engine)
	}
	return fmt.Sprintf("%s,complete=%v,%s", c.plk.mode, c.plk.complete, c.plk.engine)
}

func (c *tcase) key() string {
	return strings.Join([]string{c.rn.Name(), c.scheme, c.world, c.cfg(), c.class, c.name}, "|")
}

func hexOf(w io.WriterTo) string {
	var b bytes.Buffer
	var err error
	if p, _ := vcore.Catch(func() { _, err = w.WriteTo(&b) }); p != nil {
		return fmt.Sprintf("unencodable(panic %v)", p)
	}
	if err != nil {
		return "unencodable:" + err.Error()
	}
	return fmt.Sprintf("%x", b.Bytes())
}

func (c *tcase) replay() map[string]any {
	m := map[string]any{"chain": c.rn.Name(), "inner": c.rn.Inner().String(), "outer": c.rn.Outer().String(), "scheme": c.scheme,
		"config": c.cfg(), "class": c.class, "edit": c.name, "inner_circuit": c.spec}
	var pubs [][]string
	for _, p := range c.pubs {
		pubs = append(pubs, vecStr(p))
	}
	m["public"] = pubs
	for k, v := range c.customReplay {
		m[k] = v
	}
	if c.custom != nil && c.plk == nil {
		return m
	}
	if c.g16 != nil {
		m["proof_hex"] = hexOf(c.g16.proof)
		var vks []string
		for _, vk := range c.g16.vks {
			vks = append(vks, hexOf(vk))
		}
		m["vks_hex"] = vks
		m["selector"] = c.g16.sel
	} else {
		var ps, vks []string
		for _, p := range c.plk.proofs {
			ps = append(ps, hexOf(p))
		}
		for _, vk := range c.plk.vks {
			vks = append(vks, hexOf(vk))
		}
		m["proofs_hex"] = ps
		m["vks_hex"] = vks
		m["selectors"] = c.plk.sels
	}
	return m
}

// editKind strips indices so that violation classes are stable.
func editKind(name string) string {
	out := make([]byte, 0, len(name))
	for i := 0; i < len(name); i++ {
		if name[i] >= '0' && name[i] <= '9' {
			if len(out) > 0 && out[len(out)-1] == '#' {
				continue
			}
			out = append(out, '#')
			continue
		}
		out = append(out, name[i])
	}
	return string(out)
}

// sigKind: the edit part of a violation signature.
func sigKind(c *tcase) string {
	if c.class == "torsion-shift" && (strings.HasPrefix(c.name, "BatchedProof.H") || strings.HasPrefix(c.name, "ZShiftedOpening.H")) {
		return "kzg-opening-quotient"
	}
	return editKind(c.name)
}

// run evaluates the case in both verifiers and records the verdict.
func (c *tcase) run(r *vcore.Run) {
	nerr, npan := c.native()
	pre := c.rn.Name() + "." + c.scheme + "."
	if npan != "" {
		// the native verifier crashing is C08's business; the oracle is undefined
		r.Inconclusive("native-verifier-panicked")
		r.Count(pre+"native.panic", 1)
		return
	}
	var o outcome
	t0 := time.Now()
	done := make(chan struct{})
	go func() {
		defer close(done)
		switch {
		case c.custom != nil:
			o = c.custom()
		case c.g16 != nil:
			o = c.rn.RunG16(c.g16)
		default:
			o = c.rn.RunPlonk(c.plk)
		}
	}()
	wd := caseWatchdog
	if (c.g16 != nil && c.g16.engine != "test") || (c.plk != nil && c.plk.engine != "test") {
		wd = 5 * caseWatchdog // includes (waiting for) the compilation of the outer circuit
	}
	select {
	case <-done:
	case <-time.After(wd):
		r.Inconclusive("incircuit-evaluation-watchdog")
		r.Count(pre+"incircuit.watchdog", 1)
		r.SampleClass("watchdog", c.replay())
		return
	}
	el := time.Since(t0)
	r.Eval(c.key(), !c.trivial)
	eng := "test"
	if c.g16 != nil {
		eng = c.g16.engine
	} else if c.plk != nil {
		eng = c.plk.engine
	}
	r.Count(pre+"cases", 1)
	r.Count(pre+"engine="+eng, 1)
	r.Count(pre+"config."+c.cfg(), 1)
	r.Count(pre+"class."+c.class, 1)
	r.Count(pre+"incircuit."+o.bucket(), 1)
	r.Count(fmt.Sprintf("%sms.engine=%s", pre, eng), int(el.Milliseconds()))
	if o.stage == "compile" || o.stage == "convert" || o.stage == "witness" {
		if nerr == nil {
			// a genuine-shaped triple must get through conversion and compilation
			r.Violation("incircuit-setup-failed/"+c.scheme+"/"+c.rn.Name()+"/"+o.stage, "conversion/compilation of the outer circuit failed for a triple the native verifier accepts: "+o.err, c.replay())
			return
		}
	}
	nat := "reject"
	if nerr == nil {
		nat = "accept"
	}
	r.Count(pre+"native."+nat, 1)
	switch {
	case nerr == nil && o.sat:
		r.Count(pre+"agree.both-accept", 1)
		r.Count(pre+"agree.both-accept.class."+c.class, 1)
		r.SampleClass(c.scheme+"/"+c.rn.Name()+"/accept/"+c.class, map[string]any{"config": c.cfg(), "edit": c.name, "inner_circuit": c.spec, "native": "accept", "incircuit": "satisfied"})
	case nerr != nil && !o.sat:
		r.Count(pre+"agree.both-reject", 1)
		r.Count(pre+"agree.both-reject.class."+c.class, 1)
		r.SampleClass(c.scheme+"/"+c.rn.Name()+"/reject/"+c.class, map[string]any{"config": c.cfg(), "edit": c.name, "inner_circuit": c.spec, "native": nerr.Error(), "incircuit": o.bucket() + ": " + o.err})
	case nerr != nil && o.sat:
		if c.exemptAcceptOnly != "" {
			r.Count(pre+"documented-divergence.incircuit-accepts("+c.exemptAcceptOnly+")", 1)
			r.SampleClass(c.scheme+"/"+c.rn.Name()+"/documented-accept/"+c.class, map[string]any{"config": c.cfg(), "edit": c.name, "native": nerr.Error(), "incircuit": "satisfied", "why": c.exemptAcceptOnly})
			return
		}
		r.Count(pre+"DISAGREE.incircuit-accepts-native-rejects", 1)
		rep := c.replay()
		rep["native_error"] = nerr.Error()
		r.Violation("incircuit-accepts-native-rejects/"+c.scheme+"/"+c.rn.Name()+"/"+c.class+"/"+sigKind(c),
			fmt.Sprintf("outer circuit satisfied (%s) on a triple the native verifier rejects (%v): %s %s", c.cfg(), nerr, c.class, c.name), rep)
	default: // native accepts, in-circuit unsatisfied
		if c.exemptRejectOnly != "" {
			r.Count(pre+"documented-divergence.incircuit-rejects("+c.exemptRejectOnly+")", 1)
			r.SampleClass(c.scheme+"/"+c.rn.Name()+"/documented-reject/"+c.class, map[string]any{"config": c.cfg(), "edit": c.name, "native": "accept", "incircuit": o.bucket() + ": " + o.err, "why": c.exemptRejectOnly})
			return
		}
		r.Count(pre+"DISAGREE.incircuit-rejects-native-accepts", 1)
		rep := c.replay()
		rep["incircuit_error"] = o.err
		r.Violation("incircuit-rejects-native-accepts/"+c.scheme+"/"+c.rn.Name()+"/"+c.class+"/"+editKind(c.name),
			fmt.Sprintf("outer circuit unsatisfiable (%s: %s) on a triple the native verifier accepts: %s %s", c.cfg(), o.err, c.class, c.name), rep)
	}
}

// caseWatchdog bounds one in-process evaluation (typical: 0.2-20 s; under the
// heaviest machine load seen: 4 min).  Expiry is inconclusive, never a violation.
var caseWatchdog = 12 * time.Minute

// ------------------------------------------------------------------ plan

type g16cfg struct {
	mode               string
	complete, subgroup bool
}
type plkcfg struct {
	mode     string
	complete bool
}

func g16cfgs() []g16cfg {
	var out []g16cfg
	for _, m := range []string{"witness", "fixed", "switch"} {
		for _, o := range [][2]bool{{false, false}, {true, false}, {false, true}, {true, true}} {
			out = append(out, g16cfg{m, o[0], o[1]})
		}
	}
	return out
}
func plkcfgs() []plkcfg {
	var out []plkcfg
	for _, m := range []string{"fixed", "witness", "switch"} {
		for _, c := range []bool{true, false} {
			out = append(out, plkcfg{m, c})
		}
	}
	return out
}

type planner struct {
	r         *vcore.Run
	mu        sync.Mutex
	cases     []*tcase
	specialOK bool
}

func (pl *planner) add(c *tcase) {
	// emulated chain: screen the public inputs (they are the scalars of the
	// in-circuit multi scalar multiplication) against the non-terminating hint
	if c.rn.Name() == "emulated" && !pl.specialOK {
		for _, pv := range c.pubs {
			for _, v := range pv {
				if !hintTerminates(v) {
					pl.r.Count("emulated.screened-out(halfGCDEisenstein would not terminate)", 1)
					return
				}
			}
		}
	}
	pl.mu.Lock()
	pl.cases = append(pl.cases, c)
	pl.mu.Unlock()
}

// sample returns k distinct indices of [0,n) (all when k >= n), in order.
func sample(rng *rand.Rand, n, k int) []int {
	if k >= n {
		out := make([]int, n)
		for i := range out {
			out[i] = i
		}
		return out
	}
	p := rng.Perm(n)[:k]
	sort.Ints(p)
	return p
}

// ------------------------------------------------------------------ Groth16 worlds

func (pl *planner) planG16(rn runner, commit string, widx int) {
	r := pl.r
	world := fmt.Sprintf("%s#%d", commit, widx)
	rng := r.Rand("g16/" + rn.Name() + "/" + world)
	field := rn.Inner().ScalarField()
	ops := curves.Get(rn.Inner())
	emu := rn.Name() == "emulated"
	specials := !emu || pl.specialOK

	spec := makeSpec(rng, commit)
	A, err := newG16Inner(rn, spec)
	if err != nil {
		r.Inconclusive("g16-inner-setup:" + err.Error())
		return
	}
	A2, err := A.resetup()
	if err != nil {
		r.Inconclusive("g16-inner-resetup")
		return
	}
	B, err := newG16Inner(rn, sibling(spec, false))
	if err != nil {
		r.Inconclusive("g16-sibling-setup:" + err.Error())
		return
	}
	x0, s0 := assignFor(rng, spec, field, -1, specials)
	x1, s1 := assignFor(rng, spec, field, -1, specials)
	xB, sB := assignFor(rng, B.spec, field, -1, specials)
	xZ, sZ := assignFor(rng, spec, field, 1, specials) // public input 0 at index 1
	pA0, e0 := A.prove(rn, x0, s0)
	pA1, e1 := A.prove(rn, x1, s1)
	pB, e2 := B.prove(rn, xB, sB)
	pA2, e3 := A2.prove(rn, x0, s0)
	pZ, e4 := A.prove(rn, xZ, sZ)
	for _, e := range []error{e0, e1, e2, e3, e4} {
		if e != nil {
			r.Inconclusive("g16-inner-prove:" + e.Error())
			return
		}
	}
	r.Count(rn.Name()+".groth16.worlds."+commit, 1)
	cfgs := g16cfgs()
	next := rng.IntN(len(cfgs))
	nextCfg := func() g16cfg { next++; return cfgs[next%len(cfgs)] }

	mk := func(class, name string, cfg g16cfg, proof groth16.Proof, in *g16Inner, pub []*big.Int) *tcase {
		pw := pubWitness(rn, pub)
		gc := &g16Case{mode: cfg.mode, complete: cfg.complete, subgroup: cfg.subgroup, engine: "test",
			vks: []groth16.VerifyingKey{in.vk}, vkCcs: []constraint.ConstraintSystem{in.ccs}, proof: proof, pub: pw, shapeK: world}
		vk := in.vk
		if cfg.mode == "switch" {
			// the key under test sits at a PRNG-chosen position among the constant keys
			other := B
			if in == B {
				other = A
			}
			if rng.IntN(2) == 0 {
				gc.vks = []groth16.VerifyingKey{in.vk, other.vk}
				gc.vkCcs = []constraint.ConstraintSystem{in.ccs, other.ccs}
				gc.sel = 0
			} else {
				gc.vks = []groth16.VerifyingKey{other.vk, in.vk}
				gc.vkCcs = []constraint.ConstraintSystem{other.ccs, in.ccs}
				gc.sel = 1
			}
		}
		return &tcase{scheme: "groth16", rn: rn, world: world, class: class, name: name, g16: gc, pubs: [][]*big.Int{pub}, spec: in.spec.String(),
			native: func() (error, string) { return nativeG16(rn, proof, vk, pw) }}
	}

	// 1. genuine triples in every configuration
	gcfgs := cfgs
	if emu && r.Quick() {
		gcfgs = nil
		for _, i := range sample(rng, len(cfgs), 2) {
			gcfgs = append(gcfgs, cfgs[i])
		}
	}
	for i, cfg := range gcfgs {
		switch i % 3 {
		case 0:
			pl.add(mk("genuine", "proof0", cfg, pA0, A, x0))
		case 1:
			pl.add(mk("genuine", "proof1", cfg, pA1, A, x1))
		case 2:
			pl.add(mk("genuine", "sibling-proof", cfg, pB, B, xB))
		}
	}
	// genuine with a zero public input: outside the documented domain of the incomplete formulas
	zcfgs := []g16cfg{{"witness", true, false}, {"fixed", false, false}}
	if emu && r.Quick() {
		zcfgs = zcfgs[:1]
		if commit != commitNone {
			zcfgs = nil
		}
	}
	for _, cfg := range zcfgs {
		c := mk("genuine-zero-public-input", "pub[1]=0", cfg, pZ, A, xZ)
		if !cfg.complete {
			c.exemptRejectOnly = "zero scalar without WithCompleteArithmetic"
		}
		pl.add(c)
	}

	// 2. replayed public inputs
	var replays []*tcase
	for j := range x0 {
		for _, mode := range []string{"+1", "random", "from-proof1", "zero"} {
			np := clonev(x0)
			switch mode {
			case "+1":
				np[j].Add(np[j], big.NewInt(1)).Mod(np[j], field)
			case "random":
				np[j] = genericElem(rng, field)
			case "from-proof1":
				np[j].Set(x1[j])
			case "zero":
				np[j] = new(big.Int)
			}
			if np[j].Cmp(x0[j]) == 0 {
				continue
			}
			c := mk("replay", fmt.Sprintf("pub[%d]%s", j, mode), nextCfg(), pA0, A, np)
			replays = append(replays, c)
		}
	}
	replays = append(replays, mk("replay", "other-witness-proof", nextCfg(), pA1, A, x0))
	for _, i := range sample(rng, len(replays), pick(r, emu, 1, 5, 6, len(replays))) {
		pl.add(replays[i])
	}

	// 3. other keys
	oth := []*tcase{
		mk("other-key", "second-setup-of-same-circuit", nextCfg(), pA0, A2, x0),
		mk("other-key", "sibling-circuit-key", nextCfg(), pA0, B, x0),
		mk("other-key", "sibling-proof-under-this-key", nextCfg(), pB, A, xB),
		mk("other-key", "proof-from-second-setup", nextCfg(), pA2, A, x0),
	}
	for _, i := range sample(rng, len(oth), pick(r, emu, 1, 4, 4, 4)) {
		pl.add(oth[i])
	}

	// 4. single-element edits of the proof (complete enumeration; sampled where expensive)
	donors := []any{pA1, pA2}
	edits := ops.G16SingleEdits(pA0, donors, A.vk)
	nbCommit := ops.G16NbCommitments(A.vk)
	var cand []cvapi.Edit
	for _, e := range edits {
		if !e.Changed {
			r.Count(rn.Name()+".groth16.single-edit.trivial-unchanged", 1)
			continue
		}
		cand = append(cand, e)
	}
	r.Count(rn.Name()+".groth16.single-edit.enumerated", len(cand))
	for _, i := range sample(rng, len(cand), pick(r, emu, 2, 18, 24, len(cand))) {
		e := cand[i]
		c := mk("single-edit", e.Name, nextCfg(), e.Obj.(groth16.Proof), A, x0)
		if nbCommit == 0 && strings.HasPrefix(e.Name, "CommitmentPok") {
			c.class = "single-edit(unused CommitmentPok)"
		}
		pl.add(c)
	}

	// 5. commitment-list edits: surplus / missing commitments (outer circuit shaped after the triple)
	var lst []*tcase
	for _, e := range ops.G16ListEdits(pA0, donors) {
		if !e.Changed {
			continue
		}
		lst = append(lst, mk("list-edit", e.Name, nextCfg(), e.Obj.(groth16.Proof), A, x0))
	}
	{
		np := clonev(x0)
		np[len(np)-1].Add(np[len(np)-1], big.NewInt(7)).Mod(np[len(np)-1], field)
		forged := ops.G16Surplus(pA0, A.vk, x0, np).(groth16.Proof)
		lst = append(lst, mk("surplus-commitment-forgery", "pub[last]+7,append(sum(x-x')K)", nextCfg(), forged, A, np))
		lst = append(lst, mk("surplus-commitment-forgery", "pub[last]+7,append(sum(x-x')K)", g16cfg{"witness", false, false}, forged, A, np))
	}
	// wrong number of public inputs
	lst = append(lst, mk("witness-length", "append-element", nextCfg(), pA0, A, append(clonev(x0), big.NewInt(5))))
	lst = append(lst, mk("witness-length", "drop-element", nextCfg(), pA0, A, clonev(x0)[:len(x0)-1]))
	for _, i := range sample(rng, len(lst), pick(r, emu, 3, len(lst), len(lst), len(lst))) {
		pl.add(lst[i])
	}

	// 6. torsion-shifted proof elements: the pairing equations still hold, the native verifier's subgroup check does not
	for _, e := range g16TorsionEdits(rn.Inner(), pA0) {
		if emu && r.Quick() && commit != commitMixed {
			continue
		}
		for _, sub := range []bool{true, false} {
			for _, mode := range []string{"witness", "fixed"} {
				if emu && r.Quick() && mode == "fixed" {
					continue
				}
				c := mk("torsion-shift", e.Name, g16cfg{mode, false, sub}, e.Obj.(groth16.Proof), A, x0)
				if !sub {
					c.exemptAcceptOnly = "no subgroup check without WithSubgroupCheck"
				}
				pl.add(c)
			}
		}
	}

	// 6b. off-curve points
	offs := g16OffCurveEdits(pA0)
	if emu && r.Quick() && commit == commitMixed {
		offs = nil
	}
	for _, i := range sample(rng, len(offs), pick(r, emu, 1, 3, 3, 3)) {
		if offs[i].Changed {
			pl.add(mk("off-curve-point", offs[i].Name, nextCfg(), offs[i].Obj.(groth16.Proof), A, x0))
		}
	}

	// 7. key switching: selector pointing at another key than the proof's
	sw := func(name string, cfg g16cfg, proof groth16.Proof, pub []*big.Int, sel int, keys ...*g16Inner) *tcase {
		pw := pubWitness(rn, pub)
		gc := &g16Case{mode: "switch", complete: cfg.complete, subgroup: cfg.subgroup, engine: "test", proof: proof, pub: pw, sel: sel, shapeK: world + "/" + name}
		for _, k := range keys {
			gc.vks = append(gc.vks, k.vk)
			gc.vkCcs = append(gc.vkCcs, k.ccs)
		}
		return &tcase{scheme: "groth16", rn: rn, world: world, class: "selector", name: name, g16: gc, pubs: [][]*big.Int{pub}, spec: spec.String(),
			native: func() (error, string) {
				if sel < 0 || sel >= len(keys) {
					return fmt.Errorf("selector %d selects no key", sel), ""
				}
				return nativeG16(rn, proof, keys[sel].vk, pw)
			}}
	}
	sws := []*tcase{
		sw("proof-of-key0,selector=1", nextCfg(), pA0, x0, 1, A, B),
		sw("proof-of-key1,selector=0", nextCfg(), pB, xB, 0, A, B),
		sw("proof-of-key1,selector=1(genuine)", nextCfg(), pB, xB, 1, A, B),
		sw("selector=2-of-2-keys", nextCfg(), pA0, x0, 2, A, B),
		sw("proof-of-key0,selector=2-of-3", nextCfg(), pA0, x0, 2, A, B, A2),
		sw("proof-of-key2,selector=2-of-3(genuine)", nextCfg(), pA2, x0, 2, A, B, A2),
		sw("single-key,selector=0(genuine)", nextCfg(), pA0, x0, 0, A),
		sw("single-key,selector=1", nextCfg(), pA0, x0, 1, A),
	}
	for _, i := range sample(rng, len(sws), pick(r, emu, 2, len(sws), len(sws), len(sws))) {
		pl.add(sws[i])
	}

	// 8. compiled outer circuits (thorough): the same triples through frontend.Compile + Solve
	if r.Thorough() && widx == 0 && commit != commitSecret {
		for _, eng := range []string{"r1cs", "scs"} {
			cfg := g16cfg{"witness", false, false}
			var cs []*tcase
			cs = append(cs, mk("genuine", "proof0", cfg, pA0, A, x0), mk("genuine", "proof1", cfg, pA1, A, x1))
			np := clonev(x0)
			np[0].Add(np[0], big.NewInt(1)).Mod(np[0], field)
			cs = append(cs, mk("replay", "pub[0]+1", cfg, pA0, A, np))
			cs = append(cs, mk("other-key", "second-setup-of-same-circuit", cfg, pA0, A2, x0))
			for _, i := range sample(rng, len(cand), 3) {
				cs = append(cs, mk("single-edit", cand[i].Name, cfg, cand[i].Obj.(groth16.Proof), A, x0))
			}
			for _, c := range cs {
				c.g16.engine = eng
				pl.add(c)
			}
		}
	}
}

// pick: number of cases for (emulated?, tier).
func pick(r *vcore.Run, emu bool, emuQuick, chainQuick, emuThorough, chainThorough int) int {
	switch {
	case emu && r.Quick():
		return emuQuick
	case emu:
		return emuThorough
	case r.Quick():
		return chainQuick
	}
	return chainThorough
}

// ------------------------------------------------------------------ PLONK worlds

func (pl *planner) planPlonk(rn runner, commit string, widx int) {
	r := pl.r
	world := fmt.Sprintf("%s#%d", commit, widx)
	rng := r.Rand("plonk/" + rn.Name() + "/" + world)
	field := rn.Inner().ScalarField()
	ops := curves.Get(rn.Inner())
	emu := rn.Name() == "emulated"
	specials := !emu || pl.specialOK

	spec := makeSpec(rng, commit)
	tau := randTau(rng, field)
	A, err := newPlkInner(rn, spec, tau)
	if err != nil {
		r.Inconclusive("plonk-inner-setup:" + err.Error())
		return
	}
	A2, err := newPlkInner(rn, spec, randTau(rng, field))
	if err != nil {
		r.Inconclusive("plonk-inner-resetup")
		return
	}
	// sibling of another domain size under the same SRS: same base key
	B, err := newPlkInner(rn, sibling(spec, true), tau)
	if err != nil {
		r.Inconclusive("plonk-sibling-setup:" + err.Error())
		return
	}
	x0, s0 := assignFor(rng, spec, field, -1, specials)
	x1, s1 := assignFor(rng, spec, field, -1, specials)
	xB, sB := assignFor(rng, B.spec, field, -1, specials)
	xZ, sZ := assignFor(rng, spec, field, 1, specials)
	pA0, e0 := A.prove(rn, x0, s0)
	pA1, e1 := A.prove(rn, x1, s1)
	pB, e2 := B.prove(rn, xB, sB)
	pA2, e3 := A2.prove(rn, x0, s0)
	pZ, e4 := A.prove(rn, xZ, sZ)
	for _, e := range []error{e0, e1, e2, e3, e4} {
		if e != nil {
			r.Inconclusive("plonk-inner-prove:" + e.Error())
			return
		}
	}
	r.Count(rn.Name()+".plonk.worlds."+commit, 1)
	if A.ccs.GetNbConstraints() != B.ccs.GetNbConstraints() {
		r.Count(rn.Name()+".plonk.worlds.sibling-has-other-domain-size", 1)
	}
	excA, excB := plkVKExceptional(A.vk), plkVKExceptional(B.vk)
	if excA || excB {
		r.Count(rn.Name()+".plonk.worlds.key-with-exceptional-points", 1)
	}
	cfgs := plkcfgs()
	next := rng.IntN(len(cfgs))
	nextCfg := func() plkcfg { next++; return cfgs[next%len(cfgs)] }

	type item struct {
		proof plonk.Proof
		in    *plkInner
		pub   []*big.Int
	}
	// mkN builds a case verifying the items; in switch mode item i is verified
	// against keys[sels[i]]; otherwise all items use items[0].in.
	mkN := func(class, name string, cfg plkcfg, items []item, keys []*plkInner, sels []int) *tcase {
		pc := &plkCase{mode: cfg.mode, complete: cfg.complete, engine: "test", shapeK: world}
		var pubs [][]*big.Int
		var pws []witness.Witness
		for _, it := range items {
			pw := pubWitness(rn, it.pub)
			pc.proofs = append(pc.proofs, it.proof)
			pc.pubs = append(pc.pubs, pw)
			pws = append(pws, pw)
			pubs = append(pubs, it.pub)
		}
		exc := false
		if cfg.mode == "switch" {
			for _, k := range keys {
				pc.vks = append(pc.vks, k.vk)
				pc.vkCcs = append(pc.vkCcs, k.ccs)
				exc = exc || plkVKExceptional(k.vk)
			}
			pc.sels = sels
			// the base key (SRS part) is the one of the first selected key
			if sels[0] >= 0 && sels[0] < len(keys) {
				pc.base = keys[sels[0]].vk
			} else {
				pc.base = keys[0].vk
			}
			pc.shapeK += "/" + name
		} else {
			pc.vks = []plonk.VerifyingKey{items[0].in.vk}
			pc.vkCcs = []constraint.ConstraintSystem{items[0].in.ccs}
			pc.sels = make([]int, len(items))
			exc = plkVKExceptional(items[0].in.vk)
			if cfg.mode != "witness" {
				pc.shapeK += "/" + name
			}
		}
		c := &tcase{scheme: "plonk", rn: rn, world: world, class: class, name: name, plk: pc, pubs: pubs, spec: items[0].in.spec.String(),
			native: func() (error, string) {
				for i, it := range items {
					vk := it.in.vk
					if cfg.mode == "switch" {
						if sels[i] < 0 || sels[i] >= len(keys) {
							return fmt.Errorf("selector %d selects no key", sels[i]), ""
						}
						vk = keys[sels[i]].vk
						if keys[sels[i]].tau.Cmp(keys[sels[0]].tau) != 0 {
							// verified in-circuit under the first key's SRS
							return fmt.Errorf("key %d belongs to another SRS than the base key", sels[i]), ""
						}
					}
					if err, pan := nativePlonk(rn, it.proof, vk, pws[i]); err != nil || pan != "" {
						return err, pan
					}
				}
				return nil, ""
			}}
		if !cfg.complete && exc {
			c.exemptRejectOnly = "key with exceptional points without WithCompleteArithmetic"
		}
		return c
	}
	mk := func(class, name string, cfg plkcfg, proof plonk.Proof, in *plkInner, pub []*big.Int) *tcase {
		if cfg.mode == "switch" {
			other := B
			if in == B {
				other = A
			}
			if rng.IntN(2) == 0 {
				return mkN(class, name, cfg, []item{{proof, in, pub}}, []*plkInner{in, other}, []int{0})
			}
			return mkN(class, name, cfg, []item{{proof, in, pub}}, []*plkInner{other, in}, []int{1})
		}
		return mkN(class, name, cfg, []item{{proof, in, pub}}, nil, nil)
	}

	// 1. genuine
	gcfgs := cfgs
	if emu && r.Quick() {
		gcfgs = nil
		for _, i := range sample(rng, len(cfgs), 2) {
			gcfgs = append(gcfgs, cfgs[i])
		}
	}
	for i, cfg := range gcfgs {
		switch i % 3 {
		case 0:
			pl.add(mk("genuine", "proof0", cfg, pA0, A, x0))
		case 1:
			pl.add(mk("genuine", "proof1", cfg, pA1, A, x1))
		case 2:
			pl.add(mk("genuine", "sibling-proof", cfg, pB, B, xB))
		}
	}
	pl.add(mk("genuine-zero-public-input", "pub[1]=0", nextCfg(), pZ, A, xZ))
	// several proofs in one outer circuit
	multi := []*tcase{
		mkN("genuine-multi", "switch:proof0@key0,sibling@key1", plkcfg{"switch", true}, []item{{pA0, A, x0}, {pB, B, xB}}, []*plkInner{A, B}, []int{0, 1}),
		mkN("genuine-multi", "same:proof0,proof1", plkcfg{"same", true}, []item{{pA0, A, x0}, {pA1, A, x1}}, nil, nil),
		mkN("multi-one-bad", "same:proof0,proof1-with-proof0's-public-input", plkcfg{"same", true}, []item{{pA0, A, x0}, {pA1, A, x0}}, nil, nil),
		mkN("multi-one-bad", "switch:proof0@key0,sibling@key0", plkcfg{"switch", true}, []item{{pA0, A, x0}, {pB, B, xB}}, []*plkInner{A, B}, []int{0, 0}),
		mkN("multi-one-bad", "switch:proof0@key1,sibling@key1", plkcfg{"switch", false}, []item{{pA0, A, x0}, {pB, B, xB}}, []*plkInner{A, B}, []int{1, 1}),
		mkN("multi-one-bad", "switch:swapped-selectors", plkcfg{"switch", true}, []item{{pA0, A, x0}, {pB, B, xB}}, []*plkInner{A, B}, []int{1, 0}),
	}
	// a proof whose only defect is a KZG opening quotient (the algebraic identity asserted per
	// proof still holds): it must not slip through the batched opening check of several proofs
	for _, e := range ops.PlonkSingleEdits(pA0, []any{pA1}, A.vk) {
		if e.Changed && (e.Name == "BatchedProof.H:=neg" || e.Name == "ZShiftedOpening.H:=donor0.ZShiftedOpening.H") {
			bad := e.Obj.(plonk.Proof)
			multi = append(multi,
				mkN("multi-one-bad", "same:proof0["+e.Name+"],proof1", plkcfg{"same", true}, []item{{bad, A, x0}, {pA1, A, x1}}, nil, nil),
				mkN("multi-one-bad", "switch:proof0["+e.Name+"]@key0,sibling@key1", plkcfg{"switch", true}, []item{{bad, A, x0}, {pB, B, xB}}, []*plkInner{A, B}, []int{0, 1}))
		}
	}
	pl.add(multi[len(multi)-1])
	for _, i := range sample(rng, len(multi)-1, pick(r, emu, 1, len(multi), len(multi), len(multi))) {
		pl.add(multi[i])
	}

	// 2. replay
	var replays []*tcase
	for j := range x0 {
		for _, mode := range []string{"+1", "random", "from-proof1", "zero"} {
			np := clonev(x0)
			switch mode {
			case "+1":
				np[j].Add(np[j], big.NewInt(1)).Mod(np[j], field)
			case "random":
				np[j] = genericElem(rng, field)
			case "from-proof1":
				np[j].Set(x1[j])
			case "zero":
				np[j] = new(big.Int)
			}
			if np[j].Cmp(x0[j]) == 0 {
				continue
			}
			replays = append(replays, mk("replay", fmt.Sprintf("pub[%d]%s", j, mode), nextCfg(), pA0, A, np))
		}
	}
	replays = append(replays, mk("replay", "other-witness-proof", nextCfg(), pA1, A, x0))
	for _, i := range sample(rng, len(replays), pick(r, emu, 1, 5, 6, len(replays))) {
		pl.add(replays[i])
	}

	// 3. other keys
	oth := []*tcase{
		mk("other-key", "same-circuit-other-srs", nextCfg(), pA0, A2, x0),
		mk("other-key", "sibling-circuit-key", nextCfg(), pA0, B, x0),
		mk("other-key", "sibling-proof-under-this-key", nextCfg(), pB, A, xB),
		mk("other-key", "proof-from-other-srs", nextCfg(), pA2, A, x0),
	}
	for _, i := range sample(rng, len(oth), pick(r, emu, 1, 4, 4, 4)) {
		pl.add(oth[i])
	}

	// 4. single-element edits
	donors := []any{pA1, pA2}
	var cand []cvapi.Edit
	for _, e := range ops.PlonkSingleEdits(pA0, donors, A.vk) {
		if !e.Changed {
			r.Count(rn.Name()+".plonk.single-edit.trivial-unchanged", 1)
			continue
		}
		cand = append(cand, e)
	}
	r.Count(rn.Name()+".plonk.single-edit.enumerated", len(cand))
	nEdits := pick(r, emu, 2, 18, 24, len(cand))
	if r.Thorough() && !emu && widx > 0 {
		nEdits = 60 // complete enumeration in world 0 only
	}
	for _, i := range sample(rng, len(cand), nEdits) {
		pl.add(mk("single-edit", cand[i].Name, nextCfg(), cand[i].Obj.(plonk.Proof), A, x0))
	}

	// 5. list edits (claimed values, BSB22 commitments), wrong witness length
	var lst []*tcase
	for _, e := range ops.PlonkListEdits(pA0, donors) {
		if !e.Changed {
			continue
		}
		lst = append(lst, mk("list-edit", e.Name, nextCfg(), e.Obj.(plonk.Proof), A, x0))
	}
	lst = append(lst, mk("witness-length", "append-element", nextCfg(), pA0, A, append(clonev(x0), big.NewInt(5))))
	lst = append(lst, mk("witness-length", "drop-element", nextCfg(), pA0, A, clonev(x0)[:len(x0)-1]))
	for _, i := range sample(rng, len(lst), pick(r, emu, 3, 10, 12, len(lst))) {
		pl.add(lst[i])
	}

	// 6. torsion shifts (only where G1 has a cofactor)
	for _, e := range plkTorsionEdits(pA0) {
		pl.add(mk("torsion-shift", e.Name, plkcfg{"fixed", true}, e.Obj.(plonk.Proof), A, x0))
		if r.Thorough() {
			pl.add(mk("torsion-shift", e.Name, plkcfg{"witness", false}, e.Obj.(plonk.Proof), A, x0))
		}
	}

	offs := plkOffCurveEdits(pA0)
	for _, i := range sample(rng, len(offs), pick(r, emu, 1, 3, 3, 3)) {
		if offs[i].Changed {
			pl.add(mk("off-curve-point", offs[i].Name, nextCfg(), offs[i].Obj.(plonk.Proof), A, x0))
		}
	}

	// 7. selectors
	sws := []*tcase{
		mkN("selector", "proof-of-key0,selector=1", nextSwitch(nextCfg()), []item{{pA0, A, x0}}, []*plkInner{A, B}, []int{1}),
		mkN("selector", "proof-of-key1,selector=0", nextSwitch(nextCfg()), []item{{pB, B, xB}}, []*plkInner{A, B}, []int{0}),
		mkN("selector", "proof-of-key1,selector=1(genuine)", nextSwitch(nextCfg()), []item{{pB, B, xB}}, []*plkInner{A, B}, []int{1}),
		mkN("selector", "selector=2-of-2-keys", nextSwitch(nextCfg()), []item{{pA0, A, x0}}, []*plkInner{A, B}, []int{2}),
		mkN("selector", "single-key,selector=0(genuine)", nextSwitch(nextCfg()), []item{{pA0, A, x0}}, []*plkInner{A}, []int{0}),
		mkN("selector", "single-key,selector=1", nextSwitch(nextCfg()), []item{{pA0, A, x0}}, []*plkInner{A}, []int{1}),
	}
	for _, i := range sample(rng, len(sws), pick(r, emu, 2, len(sws), len(sws), len(sws))) {
		pl.add(sws[i])
	}

	// 8. compiled outer circuits (thorough)
	if r.Thorough() && widx == 0 && commit != commitSecret && commit != commitPublic {
		for _, eng := range []string{"r1cs", "scs"} {
			cfg := plkcfg{"witness", true}
			var cs []*tcase
			cs = append(cs, mk("genuine", "proof0", cfg, pA0, A, x0), mk("genuine", "proof1", cfg, pA1, A, x1))
			np := clonev(x0)
			np[0].Add(np[0], big.NewInt(1)).Mod(np[0], field)
			cs = append(cs, mk("replay", "pub[0]+1", cfg, pA0, A, np))
			cs = append(cs, mk("other-key", "same-circuit-other-srs", cfg, pA0, A2, x0))
			for _, i := range sample(rng, len(cand), 3) {
				cs = append(cs, mk("single-edit", cand[i].Name, cfg, cand[i].Obj.(plonk.Proof), A, x0))
			}
			for _, c := range cs {
				c.plk.engine = eng
				pl.add(c)
			}
		}
	}
}

func nextSwitch(c plkcfg) plkcfg { c.mode = "switch"; return c }

// ------------------------------------------------------------------ entry

func TestC17(t *testing.T) {
	if vcore.IsChild() {
		t.Skip("child runs TestC17Child")
	}
	r := vcore.Start(t, "C17")
	tStart := time.Now()
	pl := &planner{r: r}
	p := chains()[1].Inner().ScalarField()
	pl.specialOK = hintTerminates(new(big.Int).Sub(p, big.NewInt(1))) && hintTerminates(new(big.Int).Sub(p, big.NewInt(2))) && hintTerminates(new(big.Int).Div(p, big.NewInt(3)))
	if pl.specialOK {
		r.Count("emulated.special-scalars-allowed(halfGCD loop terminates)", 1)
	} else {
		r.Count("emulated.special-scalars-avoided(halfGCD loop does not terminate on p-1,p-2,p/3)", 1)
	}

	// plan: worlds per chain / scheme / commitment shape
	type wjob struct {
		rn     runner
		scheme string
		commit string
		widx   int
	}
	var wjobs []wjob
	only := os.Getenv("C17_ONLY") // development / sensitivity runs: restrict to one chain
	for _, rn := range chains() {
		emu := rn.Name() == "emulated"
		if only != "" && only != rn.Name() {
			continue
		}
		g16commits := []string{commitNone, commitMixed}
		plkCommits := []string{commitNone, commitMixed, commitTwo}
		nW := 1
		if emu {
			plkCommits = []string{commitNone, commitTwo}
		}
		if r.Thorough() {
			g16commits = []string{commitNone, commitMixed, commitSecret, commitPublic}
			plkCommits = []string{commitNone, commitMixed, commitTwo, commitSecret}
			if !emu {
				nW = 2
			}
		}
		for w := 0; w < nW; w++ {
			for _, c := range g16commits {
				wjobs = append(wjobs, wjob{rn, "groth16", c, w})
			}
			for _, c := range plkCommits {
				wjobs = append(wjobs, wjob{rn, "plonk", c, w})
			}
		}
	}
	vcore.Parallel(len(wjobs), 8, func(i int) {
		j := wjobs[i]
		if j.scheme == "groth16" {
			pl.planG16(j.rn, j.commit, j.widx)
		} else {
			pl.planPlonk(j.rn, j.commit, j.widx)
		}
	})
	// adaptive adversary against the KZG batching randomness (2-chain)
	kzgAdv := only == "" || only == "2chain"
	if kzgAdv {
		rn := chains()[0]
		pl.planKzg(rn, 2)
		pl.planKzg(rn, 3)
		pl.planPlonkKzg(rn, commitNone)
		if r.Thorough() {
			pl.planPlonkKzg(rn, commitMixed)
			pl.planPlonkKzg(rn, commitTwo)
		}
	}
	// deterministic order; expensive (emulated, compiled) cases first
	sort.SliceStable(pl.cases, func(a, b int) bool {
		ca, cb := pl.cases[a], pl.cases[b]
		wa, wb := weight(ca), weight(cb)
		if wa != wb {
			return wa > wb
		}
		return ca.key() < cb.key()
	})
	r.Set("planned_cases", len(pl.cases))
	fmt.Printf("C17 progress: %d cases planned after %.0fs\n", len(pl.cases), time.Since(tStart).Seconds())

	// the dedicated non-termination probe runs concurrently in a killable child
	var hangWG sync.WaitGroup
	hangWG.Add(1)
	go func() {
		defer hangWG.Done()
		if only == "" {
			hangProbe(r)
		}
	}()

	workers := 12
	if v := os.Getenv("C17_WORKERS"); v != "" {
		fmt.Sscan(v, &workers)
	}
	vcore.Parallel(len(pl.cases), workers, func(i int) { pl.cases[i].run(r) })
	fmt.Printf("C17 progress: cases done after %.0fs\n", time.Since(tStart).Seconds())
	hangWG.Wait()
	fmt.Printf("C17 progress: hang probe done after %.0fs\n", time.Since(tStart).Seconds())

	chainsRun := []string{"2chain", "emulated"}
	if only != "" {
		chainsRun = []string{only}
	}
	for _, ch := range chainsRun {
		for _, s := range []string{"groth16", "plonk"} {
			pre := ch + "." + s + "."
			k := int64(2) // 2-chain: cheap, many cases
			if ch == "emulated" {
				k = 1
			}
			r.Require(pre+"agree.both-accept", 4*k)
			r.Require(pre+"agree.both-reject", 10*k)
			r.Require(pre+"agree.both-reject.class.replay", 2*k)
			r.Require(pre+"agree.both-reject.class.single-edit", 2*k)
			r.Require(pre+"agree.both-reject.class.other-key", k)
			r.Require(pre+"agree.both-reject.class.selector", k)
			r.Require(pre+"incircuit.unsat:constraint", 6*k)
		}
		r.Require(ch+".groth16.agree.both-reject.class.torsion-shift", 1)
		r.Require(ch+".groth16.agree.both-reject.class.surplus-commitment-forgery", 1)
	}
	if kzgAdv {
		r.Require("2chain.kzg.gadget-r-reproduced-natively", 2)
		r.Require("2chain.plonk.kzg-gadget-r-reproduced-natively", 3)
		r.Require("2chain.kzg.agree.both-accept.class.genuine", 2)
		r.Require("2chain.kzg.agree.both-reject.class.coordinated-forgery", 16)
		r.Require("2chain.plonk.agree.both-reject.class.coordinated-forgery", 8)
		r.Require("2chain.plonk.agree.both-reject.class.coordinated-forgery(openings-tampered-after-PrepareVerification)", 6)
	}
	if r.Thorough() {
		for _, ch := range chainsRun {
			for _, s := range []string{"groth16", "plonk"} {
				r.Require(ch+"."+s+".engine=r1cs", 4)
				r.Require(ch+"."+s+".engine=scs", 4)
			}
		}
	}
	level := "exploration"
	r.Finish(level,
		"per pairing (BLS12-377 in BW6-761 with native gadgets; BN254 in BN254 with emulated gadgets), scheme (Groth16, PLONK) and inner circuit (no commitment / commitment over public+secret / secret only / public only / two commitments for PLONK): real native Setup+Prove with the recursion packages' prover options, then triples = genuine, replayed public vectors, proofs under other keys (second setup, sibling circuit of the same shape), single-element edits of the proof (C01/C02's enumeration: neg/double/identity/generator/+generator/other leaf/donor proof/vk point; claimed values +-1, 0, neg, swap), commitment-list / claimed-value-list edits incl. the surplus-commitment forgery, wrong witness length, torsion-shifted points, key-switching with the selector at another key or out of range, several proofs per outer circuit with one bad; each triple in a verifier configuration (witness / constant / switched key; +-complete arithmetic; +-subgroup check) is evaluated by the native verifier (oracle) and by the outer circuit in gnark's test engine (thorough: also compiled R1CS and SCS + Solve). distinct = (pairing, scheme, inner circuit, configuration, class, edit); non-trivial = the edited triple differs from the genuine one",
		[]string{
			"soundness error of the hash challenges and pairing equations treated as never",
			"a torsion-shifted proof point (on the curve, outside the prime-order subgroup) is rejected natively by the subgroup check; the Groth16 gadget checks subgroup membership only WithSubgroupCheck (documented option), so acceptance without the option is recorded, not a violation",
			"zero public input (zero scalar) or a key with points at infinity / equal x coordinates without WithCompleteArithmetic is outside the documented domain of the incomplete formulas: a rejection there is recorded, not a violation",
			"hostile triples whose shape differs from the inner system (surplus/missing commitments or claimed values, other witness length) are evaluated in an outer circuit shaped after the triple: the verifier's Go-level length checks are what is observed; a compiled outer circuit fixes the shape and cannot receive them",
			"public inputs on which gnark-crypto's eisenstein.HalfGCD does not terminate (p-k, p/k) are screened out of the emulated chain with a capped copy of its loop; the non-termination itself is reported once by the dedicated child-process probe",
		})
}

func weight(c *tcase) int {
	w := 0
	if c.rn.Name() == "emulated" {
		w += 10
	}
	eng := "test"
	if c.g16 != nil {
		eng = c.g16.engine
	} else if c.plk != nil {
		eng = c.plk.engine
	}
	if eng != "test" {
		w += 100
	}
	return w
}

// ------------------------------------------------------------------ non-termination probe (child process)

// hangProbe: BN254-in-BN254 Groth16 recursion on a genuine proof whose last
// public input is p-1 (native Verify accepts).  A killable child process first
// evaluates the same outer circuit on a benign public input (timing reference,
// same cold start, same machine load), then on the special one; the watchdog
// for the second evaluation is 1.5x the first, which includes the process's cold
// start (at least 60 s, at most 6 min; a warm evaluation takes ~1/8 of it).
// Verdict "does not terminate" needs the watchdog AND the SIGQUIT goroutine
// dump showing the evaluation inside eisenstein.HalfGCD.
func hangProbe(r *vcore.Run) {
	dir := filepath.Join(vcore.Root(), "work", "C17-children")
	_ = os.MkdirAll(dir, 0o755)
	out := filepath.Join(dir, fmt.Sprintf("%s-seed%d-hangprobe.json", r.Tier, r.Seed))
	logp := out + ".log"
	_ = os.Remove(out)
	lf, err := os.Create(logp)
	if err != nil {
		r.Inconclusive("hang-probe-child:cannot create log")
		return
	}
	defer lf.Close()
	cmd := exec.Command(os.Args[0], "-test.run=^TestC17Child$", "-test.v", "-test.timeout=0")
	cmd.Env = append(os.Environ(), "VERIF_C17_CHILD=hangprobe", "VERIF_CHILD_OUT="+out, "VERIF_EVIDENCE_DIR="+dir)
	cmd.Stdout = lf
	cmd.Stderr = lf
	if err := cmd.Start(); err != nil {
		r.Inconclusive("hang-probe-child:cannot start")
		return
	}
	done := make(chan error, 1)
	go func() { done <- cmd.Wait() }()
	readLog := func() string {
		b, _ := os.ReadFile(logp)
		return string(b)
	}
	t0 := time.Now()
	var benign time.Duration
	var deadline time.Time
	hardStop := t0.Add(25 * time.Minute)
	timedOut, exited := false, false
	for !exited && !timedOut {
		select {
		case <-done:
			exited = true
		case <-time.After(500 * time.Millisecond):
			if benign == 0 && strings.Contains(readLog(), "C17CHILD benign-done") {
				benign = time.Since(t0)
				wd := benign + benign/2
				if wd < 60*time.Second {
					wd = 60 * time.Second
				}
				if wd > 6*time.Minute {
					wd = 6 * time.Minute
				}
				deadline = time.Now().Add(wd)
				r.Set("hang_probe_benign_seconds", benign.Seconds())
				r.Set("hang_probe_watchdog_seconds", wd.Seconds())
			}
			if (!deadline.IsZero() && time.Now().After(deadline)) || time.Now().After(hardStop) {
				timedOut = true
			}
		}
	}
	if timedOut {
		_ = cmd.Process.Signal(syscall.SIGQUIT)
		select {
		case <-done:
		case <-time.After(20 * time.Second):
			_ = cmd.Process.Kill()
			<-done
		}
	}
	log := readLog()
	switch {
	case !timedOut && strings.Contains(log, "C17CHILD special-done sat=true"):
		r.Count("hang-probe.special-input-returned-satisfied", 1)
		r.Eval("hangprobe|emulated|groth16|pub=p-1", true)
	case !timedOut && strings.Contains(log, "C17CHILD special-done sat=false"):
		r.Count("hang-probe.special-input-returned-UNSATISFIED", 1)
		r.Eval("hangprobe|emulated|groth16|pub=p-1", true)
		r.Violation("incircuit-rejects-native-accepts/groth16/emulated/genuine/public-input-p-#",
			"BN254-in-BN254 Groth16: genuine proof with last public input p-1 accepted natively, outer circuit unsatisfied", map[string]any{"child_log": logp, "log": excerpt(log, "C17CHILD special-done")})
	case timedOut && benign > 0 && strings.Contains(log, "C17CHILD special-start native=accept") && strings.Contains(log, "eisenstein.HalfGCD"):
		r.Count("hang-probe.watchdog-fired-inside-eisenstein.HalfGCD", 1)
		r.Eval("hangprobe|emulated|groth16|pub=p-1", true)
		r.Violation(hangSignature,
			fmt.Sprintf("BN254-in-BN254 Groth16 in-circuit verification (test engine) of a genuine proof whose last public input is p-1 did not return within %.0fs (same circuit, benign input, same process: %.0fs); the native verifier accepts; goroutine dump shows sw_emulated halfGCDEisenstein -> gnark-crypto eisenstein.HalfGCD", time.Since(t0).Seconds()-benign.Seconds(), benign.Seconds()),
			map[string]any{"chain": "emulated", "scheme": "groth16", "public_input": "[f(x), 12345, p-1] (BN254 Fr)", "child_log": logp, "stack_excerpt": excerpt(log, "eisenstein.HalfGCD")})
	default:
		r.Inconclusive("hang-probe-child:" + firstLines(tailStr(log, 600), 6))
	}
}

func tailStr(s string, n int) string {
	if len(s) > n {
		return s[len(s)-n:]
	}
	return s
}

func excerpt(s, needle string) string {
	i := strings.Index(s, needle)
	if i < 0 {
		return ""
	}
	a, b := i-600, i+1500
	if a < 0 {
		a = 0
	}
	if b > len(s) {
		b = len(s)
	}
	return s[a:b]
}

// hangCase proves the tiny inner circuit and evaluates the outer circuit; with
// special the last public input is p-1.
func hangCase(rn runner, special bool) (bool, string) {
	field := rn.Inner().ScalarField()
	// three public inputs: the multi scalar multiplication pairs the first two and
	// sends the last one through the single scalar multiplication
	spec := &circuits.Spec{NPub: 3, NSec: 1, Muls: 1}
	in, err := newG16Inner(rn, spec)
	if err != nil {
		return false, err.Error()
	}
	pub := []*big.Int{new(big.Int), big.NewInt(12345), big.NewInt(6789)}
	if special {
		pub[2] = new(big.Int).Sub(field, big.NewInt(1))
	}
	sec := []*big.Int{big.NewInt(77)}
	pub[0] = spec.Eval(pub, sec, field)
	proof, err := in.prove(rn, pub, sec)
	if err != nil {
		return false, err.Error()
	}
	pw := pubWitness(rn, pub)
	if nerr, pan := nativeG16(rn, proof, in.vk, pw); nerr != nil || pan != "" {
		return false, fmt.Sprintf("native verifier: %v %s", nerr, pan)
	}
	if special {
		fmt.Println("C17CHILD special-start native=accept")
	}
	o := rn.RunG16(&g16Case{mode: "witness", engine: "test", vks: []groth16.VerifyingKey{in.vk}, vkCcs: []constraint.ConstraintSystem{in.ccs}, proof: proof, pub: pw})
	if !o.sat {
		return false, "in-circuit: " + o.err
	}
	return true, ""
}

func TestC17Child(t *testing.T) {
	if !vcore.IsChild() {
		t.Skip("parent runs TestC17")
	}
	switch os.Getenv("VERIF_C17_CHILD") {
	case "hangprobe":
		ok, msg := hangCase(chains()[1], false)
		if !ok {
			fmt.Println("C17CHILD benign-failed", msg)
			return
		}
		fmt.Println("C17CHILD benign-done")
		ok, msg = hangCase(chains()[1], true)
		fmt.Printf("C17CHILD special-done sat=%v %s\n", ok, msg)
	}
}
