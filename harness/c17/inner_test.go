//go:build verif

package c17

// Inner circuits, native keys / proofs and the oracle (the native verifiers
// configured with the recursion packages' native options).

import (
	"fmt"
	"math/big"
	"math/rand/v2"

	"github.com/consensys/gnark/backend"
	"github.com/consensys/gnark/backend/groth16"
	"github.com/consensys/gnark/backend/plonk"
	"github.com/consensys/gnark/backend/witness"
	"github.com/consensys/gnark/constraint"
	"github.com/consensys/gnark/frontend"
	"github.com/consensys/gnark/frontend/cs/r1cs"
	"github.com/consensys/gnark/frontend/cs/scs"
	rg16 "github.com/consensys/gnark/std/recursion/groth16"
	rplonk "github.com/consensys/gnark/std/recursion/plonk"
	"github.com/consensys/gnark/test/unsafekzg"

	"github.com/consensys/gnark/verifharness/internal/circuits"
	"github.com/consensys/gnark/verifharness/internal/vcore"
)

// shape of the commitment of an inner circuit
const (
	commitNone   = "nocommit"
	commitMixed  = "commit(pub+sec)"
	commitSecret = "commit(sec)"
	commitPublic = "commit(pub)"
	commitTwo    = "commit(pub+sec),commit(sec+prev)" // PLONK only: the Groth16 gadget supports one commitment
)

// makeSpec draws an inner circuit of the requested commitment shape.  The
// sibling (same number of public inputs and commitments, other constraints) is
// obtained with sibling().
func makeSpec(rng *rand.Rand, commit string) *circuits.Spec {
	s := &circuits.Spec{NPub: 2 + rng.IntN(2), NSec: 1 + rng.IntN(2), Muls: 1 + rng.IntN(3)}
	switch commit {
	case commitMixed:
		s.Commits = []circuits.CommitSpec{{Pub: []int{1}, Sec: []int{0}}}
	case commitSecret:
		s.Commits = []circuits.CommitSpec{{Sec: []int{0}}}
	case commitPublic:
		s.Commits = []circuits.CommitSpec{{Pub: []int{0, 1}}}
	case commitTwo:
		s.Commits = []circuits.CommitSpec{{Pub: []int{1}, Sec: []int{0}}, {Sec: []int{0}, Prev: []int{0}}}
	}
	return s
}

// sibling: same shape (public inputs, commitments), different constraints; big
// changes the PLONK domain size as well.
func sibling(s *circuits.Spec, big bool) *circuits.Spec {
	t := *s
	t.Muls = s.Muls + 1
	if big {
		t.Muls = s.Muls + 9
	}
	return &t
}

// assignFor draws a satisfying assignment.  Public inputs (index >= 1; index 0
// is the circuit's output) are generic field elements, small values or 1, and
// -1 / -2 when specials is set; never 0 unless zeroAt selects an index.
func assignFor(rng *rand.Rand, s *circuits.Spec, field *big.Int, zeroAt int, specials bool) (pub, sec []*big.Int) {
	for try := 0; ; try++ {
		pub, sec = s.Assign(rng, field)
		for i := 1; i < len(pub); i++ {
			switch k := rng.IntN(8); {
			case k == 0:
				pub[i] = big.NewInt(1)
			case k == 1:
				pub[i] = big.NewInt(int64(2 + rng.IntN(1000)))
			case k == 2 && specials:
				pub[i] = new(big.Int).Sub(field, big.NewInt(int64(1+rng.IntN(2))))
			default:
				pub[i] = genericElem(rng, field)
			}
		}
		if zeroAt >= 1 && zeroAt < len(pub) {
			pub[zeroAt] = big.NewInt(0)
		}
		pub[0] = s.Eval(pub, sec, field)
		if !structured(pub[0], field) || try > 20 {
			return
		}
	}
}

func genericElem(rng *rand.Rand, field *big.Int) *big.Int {
	for {
		b := make([]byte, (field.BitLen()+7)/8+8)
		for i := range b {
			b[i] = byte(rng.UintN(256))
		}
		v := new(big.Int).Mod(new(big.Int).SetBytes(b), field)
		if !structured(v, field) {
			return v
		}
	}
}

// structured: 0, or within 2^32 of the modulus (the negatives of small numbers).
func structured(v, field *big.Int) bool {
	if v.Sign() == 0 {
		return true
	}
	d := new(big.Int).Sub(field, v)
	return d.BitLen() <= 32
}

type g16Inner struct {
	spec *circuits.Spec
	ccs  constraint.ConstraintSystem
	pk   groth16.ProvingKey
	vk   groth16.VerifyingKey
}

func newG16Inner(rn runner, s *circuits.Spec) (*g16Inner, error) {
	ccs, err := frontend.Compile(rn.Inner().ScalarField(), r1cs.NewBuilder, s.New())
	if err != nil {
		return nil, fmt.Errorf("compile: %w", err)
	}
	pk, vk, err := groth16.Setup(ccs)
	if err != nil {
		return nil, fmt.Errorf("setup: %w", err)
	}
	return &g16Inner{spec: s, ccs: ccs, pk: pk, vk: vk}, nil
}

// resetup: a second, independent setup of the same circuit.
func (in *g16Inner) resetup() (*g16Inner, error) {
	pk, vk, err := groth16.Setup(in.ccs)
	if err != nil {
		return nil, err
	}
	return &g16Inner{spec: in.spec, ccs: in.ccs, pk: pk, vk: vk}, nil
}

func g16ProverOpt(rn runner) backend.ProverOption {
	return rg16.GetNativeProverOptions(rn.Outer().ScalarField(), rn.Inner().ScalarField())
}
func g16VerifierOpt(rn runner) backend.VerifierOption {
	return rg16.GetNativeVerifierOptions(rn.Outer().ScalarField(), rn.Inner().ScalarField())
}
func plkProverOpt(rn runner) backend.ProverOption {
	return rplonk.GetNativeProverOptions(rn.Outer().ScalarField(), rn.Inner().ScalarField())
}
func plkVerifierOpt(rn runner) backend.VerifierOption {
	return rplonk.GetNativeVerifierOptions(rn.Outer().ScalarField(), rn.Inner().ScalarField())
}

func (in *g16Inner) prove(rn runner, pub, sec []*big.Int) (groth16.Proof, error) {
	w, err := circuits.MakeWitness(rn.Inner().ScalarField(), pub, sec)
	if err != nil {
		return nil, err
	}
	return groth16.Prove(in.ccs, in.pk, w, g16ProverOpt(rn))
}

func pubWitness(rn runner, pub []*big.Int) witness.Witness {
	w, err := circuits.MakeWitness(rn.Inner().ScalarField(), pub, nil)
	if err != nil {
		panic(err)
	}
	return w
}

// nativeG16 is the oracle: nil <=> the native verifier accepts the triple.
func nativeG16(rn runner, proof groth16.Proof, vk groth16.VerifyingKey, pub witness.Witness) (err error, panicked string) {
	pan, stack := vcore.Catch(func() { err = groth16.Verify(proof, vk, pub, g16VerifierOpt(rn)) })
	if pan != nil {
		return fmt.Errorf("panic: %v", pan), fmt.Sprintf("%v\n%s", pan, stack)
	}
	return err, ""
}

type plkInner struct {
	spec *circuits.Spec
	ccs  constraint.ConstraintSystem
	pk   plonk.ProvingKey
	vk   plonk.VerifyingKey
	tau  *big.Int
}

// newPlkInner sets the circuit up under the SRS with toxic value tau (circuits
// that share tau share the base verifying key, whatever their sizes).
func newPlkInner(rn runner, s *circuits.Spec, tau *big.Int) (*plkInner, error) {
	ccs, err := frontend.Compile(rn.Inner().ScalarField(), scs.NewBuilder, s.New())
	if err != nil {
		return nil, fmt.Errorf("compile: %w", err)
	}
	srs, lag, err := unsafekzg.NewSRS(ccs, unsafekzg.WithToxicValue(tau))
	if err != nil {
		return nil, fmt.Errorf("srs: %w", err)
	}
	pk, vk, err := plonk.Setup(ccs, srs, lag)
	if err != nil {
		return nil, fmt.Errorf("setup: %w", err)
	}
	return &plkInner{spec: s, ccs: ccs, pk: pk, vk: vk, tau: tau}, nil
}

func (in *plkInner) prove(rn runner, pub, sec []*big.Int) (plonk.Proof, error) {
	w, err := circuits.MakeWitness(rn.Inner().ScalarField(), pub, sec)
	if err != nil {
		return nil, err
	}
	return plonk.Prove(in.ccs, in.pk, w, plkProverOpt(rn))
}

func nativePlonk(rn runner, proof plonk.Proof, vk plonk.VerifyingKey, pub witness.Witness) (err error, panicked string) {
	pan, stack := vcore.Catch(func() { err = plonk.Verify(proof, vk, pub, plkVerifierOpt(rn)) })
	if pan != nil {
		return fmt.Errorf("panic: %v", pan), fmt.Sprintf("%v\n%s", pan, stack)
	}
	return err, ""
}

// randTau: a generic toxic value (a structured one, e.g. -1, lies in the
// evaluation domain and makes the whole key degenerate: no blinding, selector
// commitments equal to +-G).
func randTau(rng *rand.Rand, field *big.Int) *big.Int {
	return genericElem(rng, field)
}

func clonev(v []*big.Int) []*big.Int {
	o := make([]*big.Int, len(v))
	for i := range v {
		o[i] = new(big.Int).Set(v[i])
	}
	return o
}

func vecStr(v []*big.Int) []string {
	s := make([]string, len(v))
	for i := range v {
		s[i] = v[i].String()
	}
	return s
}
