//go:build verif

// C09 — Serialized artifacts decode to objects that behave identically.
// Differential monitor: every artifact (constraint system, proving key,
// verifying key, proof) is written with each of its encodings and read back;
// the decoded object must be interchangeable with the original — behaviourally,
// not by DeepEqual: same solutions, proofs cross-verify over the
// {original, decoded} cube, re-encoding gives the same bytes, and the reported
// byte counts are the bytes written and consumed.
package c09

import (
	"bytes"
	"crypto/sha256"
	"fmt"
	"io"
	"math/big"
	"reflect"
	"strings"
	"testing"

	"github.com/consensys/gnark-crypto/ecc"
	"github.com/consensys/gnark-crypto/field/babybear"
	"github.com/consensys/gnark-crypto/field/koalabear"
	"github.com/consensys/gnark/backend/groth16"
	"github.com/consensys/gnark/backend/plonk"
	"github.com/consensys/gnark/backend/witness"
	"github.com/consensys/gnark/constraint"
	cs_babybear "github.com/consensys/gnark/constraint/babybear"
	cs_koalabear "github.com/consensys/gnark/constraint/koalabear"
	"github.com/consensys/gnark/constraint/solver"
	cs_tiny "github.com/consensys/gnark/constraint/tinyfield"
	"github.com/consensys/gnark/frontend"
	"github.com/consensys/gnark/frontend/cs/r1cs"
	"github.com/consensys/gnark/frontend/cs/scs"
	"github.com/consensys/gnark/internal/smallfields/tinyfield"
	gnarkio "github.com/consensys/gnark/io"
	"github.com/consensys/gnark/std/lookup/logderivlookup"
	"github.com/consensys/gnark/test/unsafekzg"

	"github.com/consensys/gnark/verifharness/c11"
	"github.com/consensys/gnark/verifharness/internal/adversary"
	"github.com/consensys/gnark/verifharness/internal/c06mon"
	"github.com/consensys/gnark/verifharness/internal/circuits"
	"github.com/consensys/gnark/verifharness/internal/progs"
	"github.com/consensys/gnark/verifharness/internal/scen"
	"github.com/consensys/gnark/verifharness/internal/vcore"
)

// countingReader counts the bytes actually consumed.
type countingReader struct {
	r io.Reader
	n int64
}

func (c *countingReader) Read(p []byte) (int, error) {
	n, err := c.r.Read(p)
	c.n += int64(n)
	return n, err
}

type encoder struct {
	name  string
	write func(io.Writer) (int64, error)
}

// roundTrip writes obj with enc, checks the byte count, reads it back into dst through a
// counting reader followed by trailing garbage, checks the consumed count, and re-encodes.
// Returns false if the artifact could not be restored.
func roundTrip(r *vcore.Run, what, label string, enc encoder, dst io.ReaderFrom, reenc func() encoder, unsafeRead func(io.Reader) (int64, error)) bool {
	var buf bytes.Buffer
	n, err := enc.write(&buf)
	key := what + "|" + enc.name + "|" + label
	r.Eval(key, true)
	rep := map[string]any{"artifact": what, "encoding": enc.name, "case": label, "bytes": buf.Len()}
	if err != nil {
		r.Violation("write-failed/"+what+"/"+enc.name, err.Error(), rep)
		return false
	}
	if n != int64(buf.Len()) {
		r.Violation("write-count-wrong/"+what+"/"+enc.name, fmt.Sprintf("WriteTo reported %d bytes, wrote %d", n, buf.Len()), rep)
	}
	garbage := []byte("\xde\xad\xbe\xef trailing garbage that must not be consumed \x00\x01\x02\x03\x04\x05\x06\x07")
	data := append(append([]byte{}, buf.Bytes()...), garbage...)
	cr := &countingReader{r: bytes.NewReader(data)}
	var m int64
	var rerr error
	pan, stack := vcore.Catch(func() {
		if unsafeRead != nil {
			m, rerr = unsafeRead(cr)
		} else {
			m, rerr = dst.ReadFrom(cr)
		}
	})
	if pan != nil {
		r.Violation("read-panic/"+what+"/"+enc.name, fmt.Sprintf("%v\n%s", pan, stack), rep)
		return false
	}
	if rerr != nil {
		r.Violation("read-failed/"+what+"/"+enc.name, "reading back a freshly written artifact failed: "+rerr.Error(), rep)
		return false
	}
	if m != int64(buf.Len()) {
		r.Violation("read-count-wrong/"+what+"/"+enc.name, fmt.Sprintf("ReadFrom reported %d bytes for an encoding of %d bytes", m, buf.Len()), rep)
	}
	// a buffered reader may legitimately pull more bytes from the stream than it decodes; what is
	// reported must be the encoding's length. Over-consumption beyond the encoding is counted.
	if cr.n != int64(buf.Len()) {
		r.Violation("bytes-consumed-differ-from-reported/"+what+"/"+enc.name,
			fmt.Sprintf("the decoder consumed %d bytes of the stream for an encoding of %d bytes (it reported %d): what follows the artifact in the stream is lost", cr.n, buf.Len(), m), rep)
	}
	r.Count("roundtrip."+what+"."+enc.name, 1)
	r.SampleClass(what+"/"+enc.name, rep)
	fragmentedRead(r, what, enc, buf.Bytes(), garbage, dst, unsafeRead != nil, rep)
	if reenc != nil {
		var b2 bytes.Buffer
		e2 := reenc()
		if _, err := e2.write(&b2); err != nil {
			r.Violation("re-encode-failed/"+what+"/"+enc.name, err.Error(), rep)
		} else if !bytes.Equal(b2.Bytes(), buf.Bytes()) {
			off := 0
			for off < b2.Len() && off < buf.Len() && b2.Bytes()[off] == buf.Bytes()[off] {
				off++
			}
			rep["first_differing_offset"] = off
			rep["reencoded_len"] = b2.Len()
			r.Violation("re-encoding-differs/"+what+"/"+enc.name, fmt.Sprintf("re-encoding the decoded object gives different bytes (first difference at offset %d)", off), rep)
		} else {
			r.Count("re-encoding-identical."+what, 1)
		}
	}
	return true
}

// fragReader delivers the stream in pieces of 1..7 bytes, as a pipe or a socket may: an
// io.Reader is allowed to return fewer bytes than asked for.  It is not an io.ByteReader.
type fragReader struct {
	data []byte
	pos  int
	k    int
}

func (f *fragReader) Read(p []byte) (int, error) {
	if f.pos >= len(f.data) {
		return 0, io.EOF
	}
	if len(p) == 0 {
		return 0, nil
	}
	f.k++
	n := []int{1, 3, 2, 7, 1, 5, 4, 6}[f.k%8]
	if len(f.data) > 32<<10 { // large artifacts: mostly larger pieces, or the run is dominated by Read calls
		n = []int{1, 509, 7, 4093, 31, 1021, 2, 257}[f.k%8]
	}
	if n > len(p) {
		n = len(p)
	}
	if n > len(f.data)-f.pos {
		n = len(f.data) - f.pos
	}
	copy(p, f.data[f.pos:f.pos+n])
	f.pos += n
	return n, nil
}

// fragmentedRead decodes the same encoding once more, into a fresh zero value of the
// destination's type, from a stream that arrives in small pieces: how the transport cuts
// the bytes must not change what is decoded, reported or consumed.
func fragmentedRead(r *vcore.Run, what string, enc encoder, data, garbage []byte, dst io.ReaderFrom, unsafe bool, rep map[string]any) {
	if len(data) > 1<<20 {
		r.Count("fragmented.skipped-large", 1)
		return
	}
	rt := reflect.TypeOf(dst)
	if rt.Kind() != reflect.Pointer || rt.Elem().Kind() != reflect.Struct {
		r.Count("fragmented.skipped-not-a-struct-pointer", 1)
		return
	}
	ow, ok := dst.(io.WriterTo)
	if !ok {
		r.Count("fragmented.skipped-no-WriteTo", 1)
		return
	}
	fresh := reflect.New(rt.Elem()).Interface().(io.ReaderFrom)
	// objects that need more than their zero value to be decoded into (a witness needs its field)
	// are recognised by decoding the unfragmented bytes into a zero value first
	{
		probe := reflect.New(rt.Elem()).Interface().(io.ReaderFrom)
		var perr error
		pan, _ := vcore.Catch(func() {
			if unsafe {
				_, perr = probe.(gnarkio.UnsafeReaderFrom).UnsafeReadFrom(bytes.NewReader(data))
			} else {
				_, perr = probe.ReadFrom(bytes.NewReader(data))
			}
		})
		if pan != nil || perr != nil {
			r.Count("fragmented.skipped-zero-value-not-decodable", 1)
			return
		}
	}
	fr := &fragReader{data: append(append([]byte{}, data...), garbage...)}
	var m int64
	var rerr error
	pan, stack := vcore.Catch(func() {
		if unsafe {
			m, rerr = fresh.(gnarkio.UnsafeReaderFrom).UnsafeReadFrom(fr)
		} else {
			m, rerr = fresh.ReadFrom(fr)
		}
	})
	r.Eval("fragmented|"+what+"|"+enc.name+"|"+fmt.Sprint(rep["case"]), true)
	r.Count("fragmented.decodes", 1)
	if pan != nil {
		r.Violation("fragmented-read-panic/"+what+"/"+enc.name, fmt.Sprintf("%v\n%s", pan, stack), rep)
		return
	}
	if rerr != nil {
		r.Violation("fragmented-read-failed/"+what+"/"+enc.name, "the encoding decodes from a bytes.Reader but not from a reader that returns 1..7 bytes per Read: "+rerr.Error(), rep)
		return
	}
	if m != int64(len(data)) || fr.pos != len(data) {
		r.Violation("fragmented-read-count-wrong/"+what+"/"+enc.name, fmt.Sprintf("from a fragmented stream the decoder reported %d and consumed %d bytes for an encoding of %d bytes", m, fr.pos, len(data)), rep)
	}
	var b1, b2 bytes.Buffer
	if _, err := ow.WriteTo(&b1); err != nil {
		return
	}
	if _, err := fresh.(io.WriterTo).WriteTo(&b2); err != nil {
		r.Violation("fragmented-re-encode-failed/"+what+"/"+enc.name, err.Error(), rep)
		return
	}
	if !bytes.Equal(b1.Bytes(), b2.Bytes()) {
		r.Violation("fragmented-read-differs/"+what+"/"+enc.name, "the object decoded from a fragmented stream differs from the one decoded from the same bytes in one piece", rep)
		return
	}
	r.Count("fragmented.identical", 1)
}

func solHash(sol any) string {
	var b bytes.Buffer
	sol.(io.WriterTo).WriteTo(&b)
	return fmt.Sprintf("%x", sha256.Sum256(b.Bytes()))
}

type wcase struct {
	full  witness.Witness
	valid bool
}

// compareSolving: the decoded system must solve / reject exactly like the original.
func compareSolving(r *vcore.Run, label string, orig, dec interface {
	Solve(witness.Witness, ...solver.Option) (any, error)
}, ws []wcase) {
	for wi, w := range ws {
		for _, tasks := range []int{1, 4} {
			opts := []solver.Option{solver.WithNbTasks(tasks), adversary.CommitmentAsHash(), adversary.FixedMask()}
			s1, e1 := orig.Solve(w.full, opts...)
			var s2 any
			var e2 error
			pan, stack := vcore.Catch(func() { s2, e2 = dec.Solve(w.full, opts...) })
			r.Eval(fmt.Sprintf("solve|%s|w%d|t%d", label, wi, tasks), true)
			rep := map[string]any{"case": label, "witness": wi, "valid": w.valid}
			switch {
			case pan != nil:
				r.Violation("decoded-system-panics/"+sig(label), fmt.Sprintf("%v\n%s", pan, stack), rep)
			case (e1 == nil) != (e2 == nil):
				r.Violation("decoded-system-solves-differently/"+sig(label), fmt.Sprintf("original: %v, decoded: %v", e1, e2), rep)
			case e1 == nil && solHash(s1) != solHash(s2):
				r.Violation("decoded-system-solution-differs/"+sig(label), "the decoded system solves the same witness to a different solution", rep)
			case e1 == nil:
				r.Count("decoded-system.same-solution", 1)
			default:
				r.Count("decoded-system.same-rejection", 1)
			}
		}
	}
}

func sig(label string) string {
	if i := strings.IndexAny(label, "{#"); i >= 0 {
		return label[:i]
	}
	return label
}

type tcirc struct {
	name    string
	circuit func() frontend.Circuit
	wits    func(field *big.Int) []wcase
	opts    []frontend.CompileOption
}

func circuitsFor(r *vcore.Run, field *big.Int, tag string) []tcirc {
	var out []tcirc
	rng := r.Rand("circuits/" + tag)
	for i := 0; i < r.Pick(4, 20); i++ {
		spec := circuits.RandSpec(rng, 3)
		out = append(out, tcirc{name: fmt.Sprintf("spec#%d%s", i, spec), circuit: func() frontend.Circuit { return spec.New() },
			wits: func(f *big.Int) []wcase {
				var ws []wcase
				for k := 0; k < 3; k++ {
					pub, sec := spec.Assign(rng, f)
					valid := true
					if k == 2 && spec.NPub > 0 {
						pub[0] = new(big.Int).Mod(new(big.Int).Add(pub[0], big.NewInt(1)), f)
						valid = false
					}
					w, _ := circuits.MakeWitness(f, pub, sec)
					ws = append(ws, wcase{w, valid})
				}
				return ws
			}})
	}
	for _, sc := range scen.Scenarios() {
		sc := sc
		out = append(out, tcirc{name: "scenario:" + sc.Name, circuit: sc.Circuit, wits: func(f *big.Int) []wcase {
			var ws []wcase
			for _, w := range sc.Witnesses(rng, f, 4) {
				fw, err := frontend.NewWitness(w.Assign, f)
				if err == nil {
					ws = append(ws, wcase{fw, w.Valid})
				}
			}
			return ws
		}})
	}
	for i := 0; i < r.Pick(6, 40); i++ {
		nIn := 1 + rng.IntN(3)
		prog := progs.Random(rng, nIn, 3+rng.IntN(30), field.BitLen())
		out = append(out, tcirc{name: fmt.Sprintf("prog#%d:%s", i, prog), circuit: func() frontend.Circuit { return progs.NewCircuit(prog, nil) },
			wits: func(f *big.Int) []wcase {
				var ws []wcase
				for k := 0; k < 4; k++ {
					in := make([]*big.Int, nIn)
					for q := range in {
						in[q] = progs.EdgeValue(rng, f)
					}
					ref := prog.Eval(in, f)
					pub, sec := prog.Split(in, prog.Outs(ref))
					w, _ := circuits.MakeWitness(f, pub, sec)
					ws = append(ws, wcase{w, ref.Sat})
				}
				return ws
			}})
	}
	return out
}

func TestC09(t *testing.T) {
	r := vcore.Start(t, "C09")
	mon := c06mon.Install(r, 3)
	defer mon.Uninstall()
	cvs := []ecc.ID{ecc.BN254, ecc.BLS12_377, ecc.BW6_761}
	if r.Thorough() {
		cvs = []ecc.ID{ecc.BN254, ecc.BLS12_377, ecc.BW6_761, ecc.BLS12_381, ecc.BLS24_315, ecc.BLS24_317, ecc.BW6_633}
	}
	type job struct {
		c  ecc.ID
		tc tcirc
	}
	var jobs []job
	for _, c := range cvs {
		for _, tc := range circuitsFor(r, c.ScalarField(), c.String()) {
			jobs = append(jobs, job{c, tc})
		}
	}
	vcore.Parallel(len(jobs), 10, func(i int) { curveCase(r, jobs[i].c, jobs[i].tc) })
	gadgetSystems(r)
	largeSystems(r)
	smallFields(r)
	r.Require("roundtrip.system.WriteTo", 30)
	r.Require("roundtrip.groth16-pk.WriteDump", 5)
	r.Require("cross.proof-verified", 100)
	r.Require("decoded-system.same-solution", 50)
	r.Require("decoded-system.same-rejection", 10)
	r.Finish("exploration",
		"per curve: generated arithmetic circuits with commitments, lookup/range-check/hint scenarios and random API programs, on both system types; each system, Groth16 pk (WriteTo, WriteRawTo, WriteDump; ReadFrom and UnsafeReadFrom), vk, PLONK pk/vk and proof is written with every encoding and read back from a stream followed by trailing garbage. Oracle: reported byte counts = bytes written = bytes the decoder reports; re-encoding the decoded object reproduces the bytes; the decoded system solves every witness to the same solution and rejects the same ones (C06 monitor on); over the cube {original, decoded} system x pk x vk every proof made verifies under both vks, and the decoded proof verifies. Plus gadget systems (emulated arithmetic, hashes, GKR sub-circuit, debug info and logs) byte-level, and systems over the three small fields. distinct = (artifact, encoding, circuit, curve)",
		[]string{"keys and systems are trusted inputs: hostile bytes are C08's business"})
}

func curveCase(r *vcore.Run, c ecc.ID, tc tcirc) {
	field := c.ScalarField()
	ws := tc.wits(field)
	label := tc.name + "/" + c.String()
	// ---------------- witnesses (full and public) from a plain stream
	for wi, w := range ws {
		if wi >= 2 {
			break
		}
		dw, _ := witness.New(field)
		roundTrip(r, "witness", fmt.Sprintf("full#%d:%s", wi, label), encoder{"WriteTo", w.full.WriteTo}, dw, func() encoder { return encoder{"WriteTo", dw.WriteTo} }, nil)
		if pw, err := w.full.Public(); err == nil {
			dp, _ := witness.New(field)
			roundTrip(r, "witness", fmt.Sprintf("public#%d:%s", wi, label), encoder{"WriteTo", pw.WriteTo}, dp, func() encoder { return encoder{"WriteTo", dp.WriteTo} }, nil)
		}
	}
	// ---------------- Groth16 side
	if ccs, err := frontend.Compile(field, r1cs.NewBuilder, tc.circuit(), tc.opts...); err == nil {
		dec := groth16.NewCS(c)
		if roundTrip(r, "system", "r1cs:"+label, encoder{"WriteTo", ccs.WriteTo}, dec, func() encoder { return encoder{"WriteTo", dec.WriteTo} }, nil) {
			compareSolving(r, "r1cs:"+label, ccs, dec, ws)
			groth16Cube(r, c, label, ccs, dec, ws)
		}
	}
	// ---------------- PLONK side
	if ccs, err := frontend.Compile(field, scs.NewBuilder, tc.circuit(), tc.opts...); err == nil {
		dec := plonk.NewCS(c)
		if roundTrip(r, "system", "scs:"+label, encoder{"WriteTo", ccs.WriteTo}, dec, func() encoder { return encoder{"WriteTo", dec.WriteTo} }, nil) {
			compareSolving(r, "scs:"+label, ccs, dec, ws)
			plonkCube(r, c, label, ccs, dec, ws)
		}
	}
}

func groth16Cube(r *vcore.Run, c ecc.ID, label string, ccs, dccs constraint.ConstraintSystem, ws []wcase) {
	pk, vk, err := groth16.Setup(ccs)
	if err != nil {
		r.Inconclusive("groth16-setup")
		return
	}
	pks := map[string]groth16.ProvingKey{"orig": pk}
	vks := map[string]groth16.VerifyingKey{"orig": vk}
	for _, e := range []struct {
		name   string
		w      func(io.Writer) (int64, error)
		unsafe bool
	}{{"WriteTo", pk.WriteTo, false}, {"WriteRawTo", pk.WriteRawTo, false}, {"WriteRawTo+UnsafeReadFrom", pk.WriteRawTo, true}} {
		d := groth16.NewProvingKey(c)
		var ur func(io.Reader) (int64, error)
		if e.unsafe {
			ur = d.(gnarkio.UnsafeReaderFrom).UnsafeReadFrom
		}
		enc := e
		if roundTrip(r, "groth16-pk", label, encoder{e.name, e.w}, d, func() encoder {
			if strings.HasPrefix(enc.name, "WriteRawTo") {
				return encoder{enc.name, d.WriteRawTo}
			}
			return encoder{enc.name, d.WriteTo}
		}, ur) {
			pks[e.name] = d
		}
	}
	{ // memory dump
		var buf bytes.Buffer
		r.Eval("groth16-pk|WriteDump|"+label, true)
		if err := pk.WriteDump(&buf); err != nil {
			r.Violation("write-failed/groth16-pk/WriteDump", err.Error(), map[string]any{"case": label})
		} else {
			d := groth16.NewProvingKey(c)
			if err := d.ReadDump(bytes.NewReader(buf.Bytes())); err != nil {
				r.Violation("read-failed/groth16-pk/ReadDump", err.Error(), map[string]any{"case": label})
			} else {
				pks["dump"] = d
				r.Count("roundtrip.groth16-pk.WriteDump", 1)
				var b2 bytes.Buffer
				if d.WriteDump(&b2) == nil && !bytes.Equal(b2.Bytes(), buf.Bytes()) {
					r.Violation("re-encoding-differs/groth16-pk/WriteDump", "dumping the restored key gives different bytes", map[string]any{"case": label})
				}
			}
		}
	}
	for _, e := range []struct {
		name string
		w    func(io.Writer) (int64, error)
	}{{"WriteTo", vk.WriteTo}, {"WriteRawTo", vk.WriteRawTo}} {
		d := groth16.NewVerifyingKey(c)
		enc := e
		if roundTrip(r, "groth16-vk", label, encoder{e.name, e.w}, d, func() encoder {
			if enc.name == "WriteRawTo" {
				return encoder{enc.name, d.WriteRawTo}
			}
			return encoder{enc.name, d.WriteTo}
		}, nil) {
			vks[e.name] = d
		}
	}
	var w *wcase
	for i := range ws {
		if ws[i].valid {
			w = &ws[i]
			break
		}
	}
	if w == nil {
		return
	}
	pw, _ := w.full.Public()
	for sn, sys := range map[string]constraint.ConstraintSystem{"orig": ccs, "decoded": dccs} {
		for pn, k := range pks {
			proof, err := groth16.Prove(sys, k, w.full)
			r.Eval(fmt.Sprintf("cube|groth16|%s|%s|%s", label, sn, pn), true)
			if err != nil {
				r.Violation("prove-with-decoded-artifacts-failed/groth16/system="+sn+"/pk="+pn, err.Error(), map[string]any{"case": label})
				continue
			}
			// the proof itself through bytes
			dp := groth16.NewProof(c)
			roundTrip(r, "groth16-proof", label, encoder{"WriteTo", proof.WriteTo}, dp, func() encoder { return encoder{"WriteTo", dp.WriteTo} }, nil)
			dpr := groth16.NewProof(c)
			roundTrip(r, "groth16-proof", label, encoder{"WriteRawTo", proof.WriteRawTo}, dpr, func() encoder { return encoder{"WriteRawTo", dpr.WriteRawTo} }, nil)
			for vn, v := range vks {
				for prn, pr := range map[string]groth16.Proof{"orig": proof, "decoded": dp, "decoded-raw": dpr} {
					if err := groth16.Verify(pr, v, pw); err != nil {
						r.Violation("cross-verification-failed/groth16/system="+sn+"/pk="+pn+"/vk="+vn+"/proof="+prn, err.Error(), map[string]any{"case": label})
					} else {
						r.Count("cross.proof-verified", 1)
					}
				}
			}
		}
	}
}

func plonkCube(r *vcore.Run, c ecc.ID, label string, ccs, dccs constraint.ConstraintSystem, ws []wcase) {
	srs, srsL, err := unsafekzg.NewSRS(ccs)
	if err != nil {
		r.Inconclusive("srs")
		return
	}
	pk, vk, err := plonk.Setup(ccs, srs, srsL)
	if err != nil {
		r.Count("plonk-setup-refused", 1)
		return
	}
	pks := map[string]plonk.ProvingKey{"orig": pk}
	vks := map[string]plonk.VerifyingKey{"orig": vk}
	for _, e := range []struct {
		name   string
		w      func(io.Writer) (int64, error)
		unsafe bool
	}{{"WriteTo", pk.WriteTo, false}, {"WriteRawTo", pk.WriteRawTo, false}, {"WriteRawTo+UnsafeReadFrom", pk.WriteRawTo, true}} {
		d := plonk.NewProvingKey(c)
		var ur func(io.Reader) (int64, error)
		if e.unsafe {
			ur = d.(gnarkio.UnsafeReaderFrom).UnsafeReadFrom
		}
		enc := e
		if roundTrip(r, "plonk-pk", label, encoder{e.name, e.w}, d, func() encoder {
			if strings.HasPrefix(enc.name, "WriteRawTo") {
				return encoder{enc.name, d.WriteRawTo}
			}
			return encoder{enc.name, d.WriteTo}
		}, ur) {
			pks[e.name] = d
		}
	}
	for _, e := range []struct {
		name string
		w    func(io.Writer) (int64, error)
	}{{"WriteTo", vk.WriteTo}, {"WriteRawTo", vk.WriteRawTo}} {
		d := plonk.NewVerifyingKey(c)
		enc := e
		if roundTrip(r, "plonk-vk", label, encoder{e.name, e.w}, d, func() encoder {
			if enc.name == "WriteRawTo" {
				return encoder{enc.name, d.WriteRawTo}
			}
			return encoder{enc.name, d.WriteTo}
		}, nil) {
			vks[e.name] = d
		}
	}
	var w *wcase
	for i := range ws {
		if ws[i].valid {
			w = &ws[i]
			break
		}
	}
	if w == nil {
		return
	}
	pw, _ := w.full.Public()
	for sn, sys := range map[string]constraint.ConstraintSystem{"orig": ccs, "decoded": dccs} {
		for pn, k := range pks {
			proof, err := plonk.Prove(sys, k, w.full)
			r.Eval(fmt.Sprintf("cube|plonk|%s|%s|%s", label, sn, pn), true)
			if err != nil {
				r.Violation("prove-with-decoded-artifacts-failed/plonk/system="+sn+"/pk="+pn, err.Error(), map[string]any{"case": label})
				continue
			}
			dp := plonk.NewProof(c)
			roundTrip(r, "plonk-proof", label, encoder{"WriteTo", proof.WriteTo}, dp, func() encoder { return encoder{"WriteTo", dp.WriteTo} }, nil)
			dpr := plonk.NewProof(c)
			roundTrip(r, "plonk-proof", label, encoder{"WriteRawTo", proof.WriteRawTo}, dpr, func() encoder { return encoder{"WriteRawTo", dpr.WriteRawTo} }, nil)
			for vn, v := range vks {
				for prn, pr := range map[string]plonk.Proof{"orig": proof, "decoded": dp, "decoded-raw": dpr} {
					if err := plonk.Verify(pr, v, pw); err != nil {
						r.Violation("cross-verification-failed/plonk/system="+sn+"/pk="+pn+"/vk="+vn+"/proof="+prn, err.Error(), map[string]any{"case": label})
					} else {
						r.Count("cross.proof-verified", 1)
					}
				}
			}
		}
	}
}

// gadgetSystems: byte-level round trips of systems holding every instruction kind
// (emulated arithmetic, hashes, lookups, GKR metadata, debug info and logs).
func gadgetSystems(r *vcore.Run) {
	cat := c11.Catalog()
	vcore.Parallel(len(cat), 6, func(i int) {
		e := cat[i]
		if e.Heavy && r.Quick() && !strings.Contains(e.Name, "gkr") {
			return
		}
		for _, b := range []string{"r1cs", "scs"} {
			if (b == "r1cs" && !e.R1CS) || (b == "scs" && !e.SCS) {
				continue
			}
			var nb frontend.NewBuilder = r1cs.NewBuilder
			dec := groth16.NewCS(e.Field)
			if b == "scs" {
				nb = scs.NewBuilder
				dec = plonk.NewCS(e.Field)
			}
			ccs, err := frontend.Compile(e.Field.ScalarField(), nb, e.New(), e.Opts...)
			if err != nil {
				r.Inconclusive("gadget-compile:" + e.Name)
				continue
			}
			roundTrip(r, "system", "gadget:"+e.Name+"|"+b, encoder{"WriteTo", ccs.WriteTo}, dec, func() encoder { return encoder{"WriteTo", dec.WriteTo} }, nil)
			r.Count("gadget-systems", 1)
		}
	})
}

// bigTable: a 2^16-entry lookup table (the table's calldata is one long array in the encoding).
type bigTable struct {
	Q   [3]frontend.Variable
	Out frontend.Variable `gnark:",public"`
}

func (c *bigTable) Define(api frontend.API) error {
	t := logderivlookup.New(api)
	for i := 0; i < 1<<16; i++ {
		t.Insert(i*7 + 1)
	}
	res := t.Lookup(c.Q[:]...)
	api.AssertIsEqual(c.Out, api.Add(res[0], res[1], res[2]))
	return nil
}

// manyInputs: more than 2^17 secret inputs (long name lists in the encoding).
type manyInputs struct {
	X   []frontend.Variable
	Out frontend.Variable `gnark:",public"`
}

func (c *manyInputs) Define(api frontend.API) error {
	acc := frontend.Variable(0)
	for i := 0; i < len(c.X); i += 4096 {
		acc = api.Add(acc, c.X[i])
	}
	api.AssertIsEqual(c.Out, acc)
	return nil
}

// largeSystems: encodings whose variable-length parts are long (tables, name lists).
func largeSystems(r *vcore.Run) {
	field := ecc.BN254.ScalarField()
	type big struct {
		name string
		circ func() frontend.Circuit
		wit  func() witness.Witness
		scs  bool
	}
	cases := []big{
		{"lookup-table-2^16/r1cs", func() frontend.Circuit { return &bigTable{} }, func() witness.Witness {
			w, _ := frontend.NewWitness(&bigTable{Q: [3]frontend.Variable{0, 65535, 1234}, Out: (0*7 + 1) + (65535*7 + 1) + (1234*7 + 1)}, field)
			return w
		}, false},
		{"lookup-table-2^16/scs", func() frontend.Circuit { return &bigTable{} }, func() witness.Witness {
			w, _ := frontend.NewWitness(&bigTable{Q: [3]frontend.Variable{5, 6, 7}, Out: (5*7 + 1) + (6*7 + 1) + (7*7 + 1)}, field)
			return w
		}, true},
		{"2^17+1-secret-inputs/r1cs", func() frontend.Circuit { return &manyInputs{X: make([]frontend.Variable, 1<<17+1)} }, func() witness.Witness {
			a := &manyInputs{X: make([]frontend.Variable, 1<<17+1)}
			sum := 0
			for i := range a.X {
				a.X[i] = i % 97
				if i%4096 == 0 {
					sum += i % 97
				}
			}
			a.Out = sum
			w, _ := frontend.NewWitness(a, field)
			return w
		}, false},
	}
	vcore.Parallel(len(cases), 3, func(i int) {
		c := cases[i]
		var nb frontend.NewBuilder = r1cs.NewBuilder
		dec := groth16.NewCS(ecc.BN254)
		if c.scs {
			nb = scs.NewBuilder
			dec = plonk.NewCS(ecc.BN254)
		}
		ccs, err := frontend.Compile(field, nb, c.circ())
		if err != nil {
			r.Inconclusive("large-compile:" + c.name + ":" + err.Error())
			return
		}
		if roundTrip(r, "system", "large:"+c.name, encoder{"WriteTo", ccs.WriteTo}, dec, func() encoder { return encoder{"WriteTo", dec.WriteTo} }, nil) {
			compareSolving(r, "large:"+c.name, ccs, dec, []wcase{{c.wit(), true}})
		}
		r.Count("large-systems", 1)
	})
}

// smallFields: systems over tinyfield, babybear and koalabear.
func smallFields(r *vcore.Run) {
	type sf struct {
		name string
		mod  *big.Int
		newR func() constraint.ConstraintSystemU32
		newS func() constraint.ConstraintSystemU32
	}
	fields := []sf{
		{"tinyfield", tinyfield.Modulus(), func() constraint.ConstraintSystemU32 { return new(cs_tiny.R1CS) }, func() constraint.ConstraintSystemU32 { return new(cs_tiny.SparseR1CS) }},
		{"babybear", babybear.Modulus(), func() constraint.ConstraintSystemU32 { return new(cs_babybear.R1CS) }, func() constraint.ConstraintSystemU32 { return new(cs_babybear.SparseR1CS) }},
		{"koalabear", koalabear.Modulus(), func() constraint.ConstraintSystemU32 { return new(cs_koalabear.R1CS) }, func() constraint.ConstraintSystemU32 { return new(cs_koalabear.SparseR1CS) }},
	}
	for _, f := range fields {
		rng := r.Rand("small/" + f.name)
		for i := 0; i < r.Pick(10, 80); i++ {
			nIn := 1 + rng.IntN(3)
			prog := progs.Random(rng, nIn, 3+rng.IntN(25), f.mod.BitLen())
			for _, b := range []string{"r1cs", "scs"} {
				c, err := progs.Compile(prog, nil, f.mod, b)
				if err != nil {
					continue
				}
				sys := c.Sys.(constraint.ConstraintSystemU32)
				dec := f.newR()
				if b == "scs" {
					dec = f.newS()
				}
				label := fmt.Sprintf("%s/%s/prog#%d", f.name, b, i)
				if !roundTrip(r, "system", label, encoder{"WriteTo", sys.WriteTo}, dec, func() encoder { return encoder{"WriteTo", dec.WriteTo} }, nil) {
					continue
				}
				var ws []wcase
				for k := 0; k < 3; k++ {
					in := make([]*big.Int, nIn)
					for q := range in {
						in[q] = progs.EdgeValue(rng, f.mod)
					}
					ref := prog.Eval(in, f.mod)
					pub, sec := prog.Split(in, prog.Outs(ref))
					w, _ := circuits.MakeWitness(f.mod, pub, sec)
					ws = append(ws, wcase{w, ref.Sat})
				}
				compareSolving(r, label, sys, dec, ws)
				r.Count("small-field-systems", 1)
			}
		}
	}
}
