//go:build verif

package scen

import (
	"math/big"
	"math/rand/v2"

	"github.com/consensys/gnark/constraint/solver"
	"github.com/consensys/gnark/frontend"
	"github.com/consensys/gnark/std/lookup/logderivlookup"
	"github.com/consensys/gnark/std/rangecheck"

	"github.com/consensys/gnark/verifharness/internal/circuits"
)

// wit is one witness of a scenario with what the oracle expects of it.
type Wit struct {
	Name   string
	Assign frontend.Circuit
	Valid  bool
}

type Scenario struct {
	Name string
	// Heavy: tens of thousands of constraints; monitors that run under the race detector
	// issue prover calls for the first witness only (solves for all of them)
	Heavy     bool
	Circuit   func() frontend.Circuit
	Witnesses func(rng *rand.Rand, p *big.Int, n int) []Wit
}

// ---- lookup table whose entries depend on the witness (+ range checks)
type lookupCircuit struct {
	Vals [6]frontend.Variable
	Idx  [4]frontend.Variable
	Out  frontend.Variable `gnark:",public"`
}

func (c *lookupCircuit) Define(api frontend.API) error {
	// a wire created early (small id) but solved late (a chain of multiplications) ...
	deep := api.Mul(c.Vals[2], c.Vals[3])
	for k := 0; k < 4; k++ {
		deep = api.Mul(deep, c.Vals[(4+k)%6])
	}
	// ... and one created afterwards that is solved in the first level
	late := api.Mul(c.Vals[0], c.Vals[5])
	t := logderivlookup.New(api)
	for i := range c.Vals {
		t.Insert(c.Vals[i])
	}
	t.Insert(api.Add(c.Vals[0], c.Vals[1]))
	t.Insert(17)
	// multi-term entry whose deepest wire is not its last term: the lookup must wait for all of them
	t.Insert(api.Add(deep, late))
	res := t.Lookup(c.Idx[:]...)
	rc := rangecheck.New(api)
	acc := frontend.Variable(0)
	for i, r := range res {
		acc = api.Add(acc, api.Mul(r, i+1))
		rc.Check(c.Idx[i], 4)
	}
	api.AssertIsEqual(c.Out, acc)
	return nil
}

func lookupWitnesses(rng *rand.Rand, p *big.Int, n int) []Wit {
	var ws []Wit
	for k := 0; k < n; k++ {
		var a lookupCircuit
		vals := make([]*big.Int, 9)
		for i := 0; i < 6; i++ {
			vals[i] = big.NewInt(int64(rng.IntN(1 << 30)))
			a.Vals[i] = vals[i]
		}
		vals[6] = new(big.Int).Add(vals[0], vals[1])
		vals[7] = big.NewInt(17)
		deep := new(big.Int).Mul(vals[2], vals[3])
		for k := 0; k < 4; k++ {
			deep.Mul(deep, vals[(4+k)%6]).Mod(deep, p)
		}
		vals[8] = new(big.Int).Add(deep, new(big.Int).Mul(vals[0], vals[5]))
		vals[8].Mod(vals[8], p)
		out := new(big.Int)
		for i := 0; i < 4; i++ {
			idx := rng.IntN(9)
			if i == k%4 {
				idx = 8 // every witness reads the deep entry once
			}
			a.Idx[i] = idx
			out.Add(out, new(big.Int).Mul(vals[idx], big.NewInt(int64(i+1))))
		}
		valid := true
		name := "valid"
		switch k % 4 {
		case 2:
			out.Add(out, big.NewInt(1))
			valid, name = false, "wrong-output"
		case 3:
			if k%8 == 7 {
				a.Idx[rng.IntN(4)] = 9 + rng.IntN(4)
				valid, name = false, "index-out-of-table"
			}
		}
		a.Out = out.Mod(out, p)
		ws = append(ws, Wit{name, &a, valid})
	}
	return ws
}

// ---- wide levels (parallel branch of the solver), hints
func sqHint(m *big.Int, in, out []*big.Int) error {
	out[0].Mul(in[0], in[0]).Mod(out[0], m)
	return nil
}

func init() { solver.RegisterHint(sqHint) }

type wideCircuit struct {
	X   [160]frontend.Variable
	B   [160]frontend.Variable // 160 independent boolean assertions: one wide level of pure checks
	Out frontend.Variable      `gnark:",public"`
}

func (c *wideCircuit) Define(api frontend.API) error {
	for i := range c.B {
		api.AssertIsBoolean(c.B[i])
	}
	lvl := make([]frontend.Variable, len(c.X))
	// lookup tables are spread through the first (wide, parallel) level: each has a multi-term
	// entry whose last wire is produced by the multiplication created just before the lookup, so
	// that for some task count a producer ends one task chunk and its lookup starts the next
	var lookups []frontend.Variable
	type pending struct {
		k    int
		prod frontend.Variable
		i    int
	}
	var pend *pending
	// one table shared by lookups spread through the wide level (different task chunks resolve
	// and read the same entries concurrently); its last entry is a long linear expression, so
	// resolving the entries takes a while
	shared := logderivlookup.New(api)
	shared.Insert(c.X[11])
	long := frontend.Variable(0)
	for i := 0; i < 60; i++ {
		long = api.Add(long, api.Mul(c.X[i], i+1))
	}
	shared.Insert(long)
	var sharedQ []frontend.Variable
	for i := range c.X {
		lvl[i] = api.Mul(c.X[i], c.X[(i+1)%len(c.X)])
		if i%20 == 9 {
			sharedQ = append(sharedQ, shared.Lookup(c.B[100+i/20])[0])
		}
		if i%20 == 2 { // the producer of a table entry ...
			pend = &pending{k: i / 20, prod: api.Mul(c.X[(i+3)%len(c.X)], c.X[(i+4)%len(c.X)]), i: i}
		}
		if i%20 == 17 && pend != nil { // ... and, 15 instructions later, the table and its lookup
			t := logderivlookup.New(api)
			t.Insert(c.X[(pend.i+5)%len(c.X)])
			t.Insert(api.Add(c.X[(pend.i+6)%len(c.X)], pend.prod))
			q := t.Lookup(c.B[pend.k])
			lookups = append(lookups, q[0])
			pend = nil
		}
	}
	for i := range lvl {
		h, err := api.Compiler().NewHint(sqHint, 1, lvl[i])
		if err != nil {
			return err
		}
		api.AssertIsEqual(h[0], api.Mul(lvl[i], lvl[i]))
		lvl[i] = api.Add(h[0], c.X[i])
	}
	acc := frontend.Variable(0)
	for i := range lvl {
		acc = api.Add(acc, api.Mul(lvl[i], lvl[(i+7)%len(lvl)]))
	}
	for k, q := range lookups {
		acc = api.Add(acc, api.Mul(q, k+2))
	}
	for k, q := range sharedQ {
		acc = api.Add(acc, api.Mul(q, k+11))
	}
	api.AssertIsEqual(c.Out, acc)
	return nil
}

func wideWitnesses(rng *rand.Rand, p *big.Int, n int) []Wit {
	var ws []Wit
	for k := 0; k < n; k++ {
		var a wideCircuit
		x := make([]*big.Int, 160)
		for i := range x {
			x[i] = circuits.RandFieldElem(rng, p)
			a.X[i] = x[i]
		}
		lvl := make([]*big.Int, 160)
		for i := range x {
			l := new(big.Int).Mul(x[i], x[(i+1)%160])
			l.Mod(l, p)
			l.Mul(l, l).Add(l, x[i]).Mod(l, p)
			lvl[i] = l
		}
		acc := new(big.Int)
		for i := range lvl {
			acc.Add(acc, new(big.Int).Mul(lvl[i], lvl[(i+7)%160]))
		}
		acc.Mod(acc, p)
		bits := make([]int, len(a.B))
		for i := range a.B {
			bits[i] = rng.IntN(2)
			a.B[i] = bits[i]
		}
		n := len(x)
		kk := 0
		for i := 0; i < n; i++ {
			if i%20 == 2 && i+15 < n {
				k := i / 20
				e0 := x[(i+5)%n]
				e1 := new(big.Int).Add(x[(i+6)%n], new(big.Int).Mul(x[(i+3)%n], x[(i+4)%n]))
				q := e0
				if bits[k] == 1 {
					q = e1
				}
				acc.Add(acc, new(big.Int).Mul(q, big.NewInt(int64(kk+2))))
				kk++
			}
		}
		long := new(big.Int)
		for i := 0; i < 60; i++ {
			long.Add(long, new(big.Int).Mul(x[i], big.NewInt(int64(i+1))))
		}
		sk := 0
		for i := 0; i < n; i++ {
			if i%20 == 9 {
				q := x[11]
				if bits[100+i/20] == 1 {
					q = long
				}
				acc.Add(acc, new(big.Int).Mul(q, big.NewInt(int64(sk+11))))
				sk++
			}
		}
		acc.Mod(acc, p)
		valid, name := true, "valid"
		switch k % 4 {
		case 2:
			acc.Add(acc, big.NewInt(1)).Mod(acc, p)
			valid, name = false, "wrong-output"
		case 3:
			// several assertions of the same (parallel) level violated at once, far apart
			a.B[3], a.B[81], a.B[157] = 2, 3, 5
			valid, name = false, "three-violations-in-one-level"
		}
		a.Out = acc
		ws = append(ws, Wit{name, &a, valid})
	}
	return ws
}

// ---- arithmetic with commitments (shared family)
func specScenario(spec *circuits.Spec) Scenario {
	return Scenario{
		Name:    "arith+commit" + spec.String(),
		Circuit: func() frontend.Circuit { return spec.New() },
		Witnesses: func(rng *rand.Rand, p *big.Int, n int) []Wit {
			var ws []Wit
			for k := 0; k < n; k++ {
				pub, sec := spec.Assign(rng, p)
				valid, name := true, "valid"
				if k%3 == 1 {
					if len(sec) > 0 && spec.NPub > 0 {
						sec[len(sec)-1] = new(big.Int).Add(sec[len(sec)-1], big.NewInt(1))
						sec[len(sec)-1].Mod(sec[len(sec)-1], p)
						valid, name = false, "wrong-secret"
					}
				}
				ws = append(ws, Wit{name, spec.Assignment(pub, sec), valid})
			}
			return ws
		},
	}
}

func Scenarios() []Scenario {
	spec := &circuits.Spec{NPub: 3, NSec: 2, Muls: 4, Commits: []circuits.CommitSpec{{Pub: []int{1}, Sec: []int{0}}, {Sec: []int{1}, Prev: []int{0}}}}
	return []Scenario{
		{Name: "lookup(witness-dependent table)+rangecheck", Circuit: func() frontend.Circuit { return &lookupCircuit{} }, Witnesses: lookupWitnesses},
		{Name: "wide-levels+hints", Circuit: func() frontend.Circuit { return &wideCircuit{} }, Witnesses: wideWitnesses},
		specScenario(spec),
		{Name: "gkr-subcircuit(8 instances)", Heavy: true, Circuit: func() frontend.Circuit { return &gkrCircuit{} }, Witnesses: gkrWitnesses},
	}
}
