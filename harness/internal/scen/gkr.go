//go:build verif

package scen

import (
	"math/big"
	"math/rand/v2"
	"sync"

	gcHash "github.com/consensys/gnark-crypto/hash"
	cs377 "github.com/consensys/gnark/constraint/bls12-377"
	cs381 "github.com/consensys/gnark/constraint/bls12-381"
	cs315 "github.com/consensys/gnark/constraint/bls24-315"
	cs317 "github.com/consensys/gnark/constraint/bls24-317"
	cs254 "github.com/consensys/gnark/constraint/bn254"
	cs633 "github.com/consensys/gnark/constraint/bw6-633"
	cs761 "github.com/consensys/gnark/constraint/bw6-761"
	"github.com/consensys/gnark/frontend"
	"github.com/consensys/gnark/std/gkr"
	stdHash "github.com/consensys/gnark/std/hash"
	"github.com/consensys/gnark/std/hash/mimc"
)

// ---- a GKR sub-circuit (std/gkr) inside the system: the solver's GKR solving
// and proving hints read the system's shared GkrInfo (circuit, dependencies,
// permutations) while per-solve data must stay private to one solve.  The
// instances depend on each other through a Series dependency, and the outputs
// are witness-dependent, so state leaking between concurrent solves changes
// what a call returns.
const gkrInstances = 8

type gkrCircuit struct {
	X   [gkrInstances]frontend.Variable
	Y   [gkrInstances]frontend.Variable
	Out frontend.Variable `gnark:",public"`
}

var gkrRegisterOnce sync.Once

// RegisterGkrHashes registers the "mimc" Fiat-Shamir hash for the in-circuit
// GKR verifier and for the native prover hint of every curve.
func RegisterGkrHashes() {
	gkrRegisterOnce.Do(func() {
		stdHash.Register("mimc", func(api frontend.API) (stdHash.FieldHasher, error) {
			m, err := mimc.NewMiMC(api)
			return &m, err
		})
		cs254.RegisterHashBuilder("mimc", gcHash.MIMC_BN254.New)
		cs377.RegisterHashBuilder("mimc", gcHash.MIMC_BLS12_377.New)
		cs381.RegisterHashBuilder("mimc", gcHash.MIMC_BLS12_381.New)
		cs315.RegisterHashBuilder("mimc", gcHash.MIMC_BLS24_315.New)
		cs317.RegisterHashBuilder("mimc", gcHash.MIMC_BLS24_317.New)
		cs633.RegisterHashBuilder("mimc", gcHash.MIMC_BW6_633.New)
		cs761.RegisterHashBuilder("mimc", gcHash.MIMC_BW6_761.New)
	})
}

func (c *gkrCircuit) Define(api frontend.API) error {
	RegisterGkrHashes()
	g := gkr.NewApi()
	x, err := g.Import(c.X[:])
	if err != nil {
		return err
	}
	y, err := g.Import(c.Y[:])
	if err != nil {
		return err
	}
	// z = x·y + x ; w = z·z − y
	z := g.Add(g.Mul(x, y), x)
	w := g.Sub(g.Mul(z, z), y)
	// only output variables of the GKR circuit can be exported: z is consumed by w's gate, so it
	// is exposed through an identity gate (as std/gkr's own example does)
	zOut := g.NamedGate("identity", z)
	sol, err := g.Solve(api)
	if err != nil {
		return err
	}
	ws := sol.Export(w)
	zs := sol.Export(zOut)
	acc := frontend.Variable(0)
	for i := range ws {
		acc = api.Add(acc, api.Mul(ws[i], i+1), api.Mul(zs[i], 2*i+3))
	}
	api.AssertIsEqual(c.Out, acc)
	// the Fiat-Shamir seed binds inputs and outputs (solve-only runs replace the commitment by a hash)
	seed := append(append([]frontend.Variable{}, c.X[:]...), c.Y[:]...)
	seed = append(seed, ws...)
	seed = append(seed, zs...)
	ch, err := api.(frontend.Committer).Commit(seed...)
	if err != nil {
		return err
	}
	return sol.Verify("mimc", ch)
}

func gkrWitnesses(rng *rand.Rand, p *big.Int, n int) []Wit {
	var ws []Wit
	for k := 0; k < n; k++ {
		var a gkrCircuit
		acc := new(big.Int)
		for i := 0; i < gkrInstances; i++ {
			x := big.NewInt(int64(rng.IntN(1 << 30)))
			y := big.NewInt(int64(rng.IntN(1 << 30)))
			if rng.IntN(4) == 0 {
				x = new(big.Int).Sub(p, big.NewInt(int64(1+rng.IntN(5))))
			}
			a.X[i], a.Y[i] = x, y
			z := new(big.Int).Mul(x, y)
			z.Add(z, x).Mod(z, p)
			w := new(big.Int).Mul(z, z)
			w.Sub(w, y).Mod(w, p)
			acc.Add(acc, new(big.Int).Mul(w, big.NewInt(int64(i+1))))
			acc.Add(acc, new(big.Int).Mul(z, big.NewInt(int64(2*i+3))))
		}
		acc.Mod(acc, p)
		valid, name := true, "valid"
		if k%3 == 2 {
			acc.Add(acc, big.NewInt(1)).Mod(acc, p)
			valid, name = false, "wrong-output"
		}
		a.Out = acc
		ws = append(ws, Wit{name, &a, valid})
	}
	return ws
}
