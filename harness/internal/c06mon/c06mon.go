//go:build verif

// Package c06mon is the C06 monitor: at the end of every successful Solve (the
// PostSolve hook, also inside Prove) the complete solution object about to be
// handed to the caller / backend is re-validated by the independent evaluator.
package c06mon

import (
	"fmt"
	"math/big"
	"sync/atomic"

	"github.com/consensys/gnark/constraint"

	"github.com/consensys/gnark/verifharness/internal/ceval"
	"github.com/consensys/gnark/verifharness/internal/hooks"
	_ "github.com/consensys/gnark/verifharness/internal/hooks/all"
	"github.com/consensys/gnark/verifharness/internal/vcore"
)

type Monitor struct {
	r       *vcore.Run
	every   int64
	n       atomic.Int64
	Checked atomic.Int64
}

// Install re-validates one in `every` solutions (1 = all) until Uninstall.
func Install(r *vcore.Run, every int) *Monitor {
	m := &Monitor{r: r, every: int64(every)}
	hooks.OnAll(m.handle)
	return m
}

func (m *Monitor) Uninstall() { hooks.OnAll(nil) }

func vec(v hooks.Vec) []*big.Int {
	o := make([]*big.Int, v.Len())
	for i := range o {
		o[i] = v.Get(i)
	}
	return o
}

func (m *Monitor) handle(ev *hooks.Event) {
	if m.n.Add(1)%m.every != 0 {
		return
	}
	problems := Check(ev)
	m.Checked.Add(1)
	m.r.Count("c06.solutions-revalidated", 1)
	if ev.Sparse {
		m.r.Count("c06.solutions-revalidated.sparse", 1)
	} else {
		m.r.Count("c06.solutions-revalidated.r1cs", 1)
	}
	for _, p := range problems {
		m.r.Violation("solver-returned-bad-solution/"+p.Class, p.Detail, map[string]any{"field": ev.Field, "sparse": ev.Sparse, "witness": strs(vec(ev.Witness)), "values": strs(vec(ev.Values))})
	}
}

func strs(v []*big.Int) []string {
	if len(v) > 200 {
		v = v[:200]
	}
	s := make([]string, len(v))
	for i := range v {
		s[i] = v[i].String()
	}
	return s
}

type Problem struct{ Class, Detail string }

// Check validates one solution event; returns the problems found.
func Check(ev *hooks.Event) (out []Problem) {
	add := func(class, f string, a ...any) { out = append(out, Problem{class, fmt.Sprintf(f, a...)}) }
	w := vec(ev.Values)
	wit := vec(ev.Witness)
	if ev.Sparse {
		// sparse systems: wires = [public | secret | internal]; the witness is the prefix
		for i := range wit {
			if i >= len(w) || w[i].Cmp(wit[i]) != 0 {
				add("witness-not-preserved", "wire %d = %v but the supplied witness has %v", i, w[i], wit[i])
				break
			}
		}
		var res *ceval.SparseResult
		var err error
		switch s := ev.System.(type) {
		case ceval.SparseSys[constraint.U64]:
			res, err = ceval.EvalSparse[constraint.U64](s, w)
		case ceval.SparseSys[constraint.U32]:
			res, err = ceval.EvalSparse[constraint.U32](s, w)
		default:
			add("monitor", "unknown system type %T", ev.System)
			return
		}
		if err != nil {
			add("evaluator-error", "%v", err)
			return
		}
		if len(res.BadGates) > 0 {
			add("gate-not-satisfied", "%d gates not satisfied by the returned wire values, first: %d", len(res.BadGates), res.BadGates[0])
		}
		L, R, O := vec(ev.L), vec(ev.R), vec(ev.O)
		if len(L) != res.DomainSize || len(R) != res.DomainSize || len(O) != res.DomainSize {
			add("lro-length", "L,R,O have lengths %d,%d,%d, want %d", len(L), len(R), len(O), res.DomainSize)
			return
		}
		for i := 0; i < res.DomainSize; i++ {
			if L[i].Cmp(res.WantL[i]) != 0 || R[i].Cmp(res.WantR[i]) != 0 || O[i].Cmp(res.WantO[i]) != 0 {
				add("lro-inconsistent-with-wires", "row %d: L,R,O = %v,%v,%v but the wires (public rows / gate wires / wire-0 padding) give %v,%v,%v", i, L[i], R[i], O[i], res.WantL[i], res.WantR[i], res.WantO[i])
				break
			}
		}
		return
	}
	// R1CS: wires = [1 | public | secret | internal]
	if len(w) == 0 || w[0].Cmp(big.NewInt(1)) != 0 {
		add("one-wire", "wire 0 is not 1")
	}
	for i := range wit {
		if i+1 >= len(w) || w[i+1].Cmp(wit[i]) != 0 {
			add("witness-not-preserved", "wire %d differs from the supplied witness entry %d", i+1, i)
			break
		}
	}
	var res *ceval.R1CSResult
	var err error
	switch s := ev.System.(type) {
	case ceval.R1CSSys[constraint.U64]:
		res, err = ceval.EvalR1CS[constraint.U64](s, w)
	case ceval.R1CSSys[constraint.U32]:
		res, err = ceval.EvalR1CS[constraint.U32](s, w)
	default:
		add("monitor", "unknown system type %T", ev.System)
		return
	}
	if err != nil {
		add("evaluator-error", "%v", err)
		return
	}
	if len(res.BadRows) > 0 {
		add("row-not-satisfied", "%d rows not satisfied by the returned wire values, first: %d", len(res.BadRows), res.BadRows[0])
	}
	A, B, C := vec(ev.A), vec(ev.B), vec(ev.C)
	// A, B, C are padded to the FFT domain size by the solver; compare the leading rows
	if len(A) < len(res.A) || len(B) < len(res.B) || len(C) < len(res.C) {
		add("abc-length", "A,B,C have lengths %d,%d,%d for %d rows", len(A), len(B), len(C), len(res.A))
		return
	}
	for i := range res.A {
		if A[i].Cmp(res.A[i]) != 0 || B[i].Cmp(res.B[i]) != 0 || C[i].Cmp(res.C[i]) != 0 {
			add("abc-not-row-evaluations", "row %d: A,B,C = %v,%v,%v but the rows evaluate to %v,%v,%v", i, A[i], B[i], C[i], res.A[i], res.B[i], res.C[i])
			break
		}
	}
	for i := len(res.A); i < len(A); i++ {
		if A[i].Sign() != 0 || B[i].Sign() != 0 || C[i].Sign() != 0 {
			add("abc-padding-nonzero", "padding row %d of A,B,C is not zero", i)
			break
		}
	}
	return
}
