// Package circuits holds the generated circuit family shared by the backend
// monitors (C01 C02 C03 C08 C09 C10 C20): a parametrised arithmetic circuit with
// 0..n commitments over public / secret / earlier-commitment variables.
package circuits

import (
	"fmt"
	"math/big"
	"math/rand/v2"

	"github.com/consensys/gnark/backend/witness"
	"github.com/consensys/gnark/frontend"
)

type CommitSpec struct {
	Pub  []int // indices into Pub
	Sec  []int // indices into Sec
	Prev []int // indices of earlier commitments
}

type Spec struct {
	NPub, NSec int
	UnusedPub  []int // public inputs (index >= 1) that appear in no constraint
	ZeroPub    []int // public inputs assigned the value 0 by Assign (only meaningful for unused ones)
	Muls       int   // length of the squaring chain
	Commits    []CommitSpec
}

func (s *Spec) String() string {
	return fmt.Sprintf("{pub:%d sec:%d unused:%v muls:%d commits:%v}", s.NPub, s.NSec, s.UnusedPub, s.Muls, s.Commits)
}

func (s *Spec) unused(i int) bool {
	for _, u := range s.UnusedPub {
		if u == i {
			return true
		}
	}
	return false
}

// Circuit: output = f(inputs); the output is Pub[0] when NPub>0, else Sec[0].
type Circuit struct {
	Pub  []frontend.Variable `gnark:",public"`
	Sec  []frontend.Variable `gnark:",secret"`
	spec *Spec
}

func (s *Spec) New() *Circuit {
	return &Circuit{Pub: make([]frontend.Variable, s.NPub), Sec: make([]frontend.Variable, s.NSec), spec: s}
}

func (c *Circuit) inputs() (out frontend.Variable, pubIn []int, secIn []int) {
	s := c.spec
	if s.NPub > 0 {
		for i := 1; i < s.NPub; i++ {
			if !s.unused(i) {
				pubIn = append(pubIn, i)
			}
		}
		for i := 0; i < s.NSec; i++ {
			secIn = append(secIn, i)
		}
		return c.Pub[0], pubIn, secIn
	}
	for i := 1; i < s.NSec; i++ {
		secIn = append(secIn, i)
	}
	return c.Sec[0], nil, secIn
}

func (c *Circuit) Define(api frontend.API) error {
	s := c.spec
	out, pubIn, secIn := c.inputs()
	var acc frontend.Variable = 1
	for k, i := range pubIn {
		if len(secIn) > 0 {
			acc = api.Add(acc, api.Mul(c.Pub[i], c.Sec[secIn[k%len(secIn)]]))
		} else {
			acc = api.Add(acc, api.Mul(c.Pub[i], c.Pub[i]))
		}
	}
	if len(pubIn) == 0 {
		for _, i := range secIn {
			acc = api.Add(acc, api.Mul(c.Sec[i], c.Sec[i]))
		}
	}
	for k := 0; k < s.Muls; k++ {
		acc = api.Mul(acc, acc)
		if len(secIn) > 0 {
			acc = api.Add(acc, c.Sec[secIn[k%len(secIn)]])
		} else if len(pubIn) > 0 {
			acc = api.Add(acc, c.Pub[pubIn[k%len(pubIn)]])
		} else {
			acc = api.Add(acc, 3)
		}
	}
	api.AssertIsEqual(out, acc)

	if len(s.Commits) > 0 {
		committer, ok := api.(frontend.Committer)
		if !ok {
			return fmt.Errorf("builder does not implement Committer")
		}
		var cms []frontend.Variable
		for _, cs := range s.Commits {
			var vars []frontend.Variable
			for _, i := range cs.Pub {
				vars = append(vars, c.Pub[i])
			}
			for _, i := range cs.Sec {
				vars = append(vars, c.Sec[i])
			}
			for _, i := range cs.Prev {
				vars = append(vars, cms[i])
			}
			cm, err := committer.Commit(vars...)
			if err != nil {
				return err
			}
			// use the commitment in a genuine constraint: cm*cm / cm == cm (cm != 0)
			t := api.Mul(cm, cm)
			api.AssertIsEqual(api.Div(t, cm), cm)
			cms = append(cms, cm)
		}
	}
	return nil
}

// Eval computes the output for the given inputs (reference, big.Int).
func (s *Spec) Eval(pub, sec []*big.Int, p *big.Int) *big.Int {
	c := s.New()
	_, pubIn, secIn := c.inputs()
	acc := big.NewInt(1)
	t := new(big.Int)
	for k, i := range pubIn {
		if len(secIn) > 0 {
			t.Mul(pub[i], sec[secIn[k%len(secIn)]])
		} else {
			t.Mul(pub[i], pub[i])
		}
		acc.Add(acc, t)
	}
	if len(pubIn) == 0 {
		for _, i := range secIn {
			acc.Add(acc, t.Mul(sec[i], sec[i]))
		}
	}
	acc.Mod(acc, p)
	for k := 0; k < s.Muls; k++ {
		acc.Mul(acc, acc)
		if len(secIn) > 0 {
			acc.Add(acc, sec[secIn[k%len(secIn)]])
		} else if len(pubIn) > 0 {
			acc.Add(acc, pub[pubIn[k%len(pubIn)]])
		} else {
			acc.Add(acc, big.NewInt(3))
		}
		acc.Mod(acc, p)
	}
	return acc
}

// RandFieldElem draws an element with a bias to edge values.
func RandFieldElem(rng *rand.Rand, p *big.Int) *big.Int {
	switch rng.IntN(10) {
	case 0:
		return big.NewInt(0)
	case 1:
		return big.NewInt(1)
	case 2:
		return new(big.Int).Sub(p, big.NewInt(1))
	case 3:
		return big.NewInt(int64(rng.IntN(1000)))
	}
	b := make([]byte, (p.BitLen()+7)/8+8)
	for i := range b {
		b[i] = byte(rng.UintN(256))
	}
	return new(big.Int).Mod(new(big.Int).SetBytes(b), p)
}

// Assign draws a satisfying assignment.
func (s *Spec) Assign(rng *rand.Rand, p *big.Int) (pub, sec []*big.Int) {
	pub = make([]*big.Int, s.NPub)
	sec = make([]*big.Int, s.NSec)
	for i := range pub {
		pub[i] = RandFieldElem(rng, p)
	}
	for i := range sec {
		sec[i] = RandFieldElem(rng, p)
	}
	for _, z := range s.ZeroPub {
		if z > 0 && z < len(pub) {
			pub[z] = new(big.Int)
		}
	}
	out := s.Eval(pub, sec, p)
	if s.NPub > 0 {
		pub[0] = out
	} else {
		sec[0] = out
	}
	return
}

// Assignment builds the circuit value carrying an assignment.
func (s *Spec) Assignment(pub, sec []*big.Int) *Circuit {
	c := s.New()
	for i := range pub {
		c.Pub[i] = new(big.Int).Set(pub[i])
	}
	for i := range sec {
		c.Sec[i] = new(big.Int).Set(sec[i])
	}
	return c
}

// MakeWitness builds a witness directly from vectors (no schema involved).
func MakeWitness(field *big.Int, pub, sec []*big.Int) (witness.Witness, error) {
	w, err := witness.New(field)
	if err != nil {
		return nil, err
	}
	ch := make(chan any, len(pub)+len(sec))
	for _, v := range pub {
		ch <- new(big.Int).Set(v)
	}
	for _, v := range sec {
		ch <- new(big.Int).Set(v)
	}
	close(ch)
	if err := w.Fill(len(pub), len(sec), ch); err != nil {
		return nil, err
	}
	return w, nil
}

// RandSpec draws a circuit shape. kind selects commitment structure.
func RandSpec(rng *rand.Rand, maxCommits int) *Spec {
	s := &Spec{NPub: 1 + rng.IntN(4), NSec: 1 + rng.IntN(3), Muls: rng.IntN(6)}
	if rng.IntN(8) == 0 {
		s.NSec = 0
		if s.NPub < 2 {
			s.NPub = 2
		}
	}
	if s.NPub >= 3 && rng.IntN(3) == 0 {
		s.UnusedPub = []int{1 + rng.IntN(s.NPub-1)}
	}
	nc := 0
	if maxCommits > 0 {
		nc = rng.IntN(maxCommits + 1)
	}
	for k := 0; k < nc; k++ {
		var cs CommitSpec
		mode := rng.IntN(4) // 0 public-only, 1 secret-only, 2 mixed, 3 mixed + previous commitment
		if mode == 0 || mode >= 2 {
			for i := 0; i < s.NPub; i++ {
				if rng.IntN(2) == 0 && !s.unused(i) {
					cs.Pub = append(cs.Pub, i)
				}
			}
		}
		if (mode == 1 || mode >= 2) && s.NSec > 0 {
			for i := 0; i < s.NSec; i++ {
				if rng.IntN(2) == 0 {
					cs.Sec = append(cs.Sec, i)
				}
			}
		}
		if mode == 3 && k > 0 {
			cs.Prev = append(cs.Prev, rng.IntN(k))
		}
		if len(cs.Pub)+len(cs.Sec)+len(cs.Prev) == 0 {
			if s.NSec > 0 && mode != 0 {
				cs.Sec = []int{0}
			} else {
				cs.Pub = []int{0}
			}
		}
		s.Commits = append(s.Commits, cs)
	}
	return s
}

// SpecOf returns the shape a circuit value was built from.
func SpecOf(c *Circuit) *Spec { return c.spec }
