// Package hooks adapts the per-field VerifHooks of gnark's constraint packages
// (build tag verif) to one field-agnostic event type.
package hooks

import (
	"math/big"
	"sync"
	"sync/atomic"
)

// Vec is a mutable view of a vector of field elements living inside gnark.
type Vec interface {
	Len() int
	Get(i int) *big.Int
	Set(i int, v *big.Int)
}

type elemPtr[E any] interface {
	*E
	SetBigInt(*big.Int) *E
	BigInt(*big.Int) *big.Int
}

// ElemVec views a []E (shares the backing array).
type ElemVec[E any, P elemPtr[E]] struct{ S []E }

func (v ElemVec[E, P]) Len() int { return len(v.S) }
func (v ElemVec[E, P]) Get(i int) *big.Int {
	return P(&v.S[i]).BigInt(new(big.Int))
}
func (v ElemVec[E, P]) Set(i int, x *big.Int) { P(&v.S[i]).SetBigInt(x) }

func NewVec[E any, P elemPtr[E]](s []E) Vec {
	if s == nil {
		return nil
	}
	return ElemVec[E, P]{S: s}
}

// Event is one successful Solve seen through VerifHooks.PostSolve.
type Event struct {
	Field   string // "bn254", "tinyfield", ...
	System  any    // the typed *cs.R1CS / *cs.SparseR1CS being solved
	Sparse  bool
	Witness Vec // the witness vector given to Solve
	Values  Vec // full wire vector (aliases the solver's)
	A, B, C Vec // R1CS only
	L, R, O Vec // sparse only
}

type Handler func(*Event)

var (
	bySystem sync.Map // system pointer -> Handler
	global   atomic.Pointer[Handler]
	yield    atomic.Pointer[func(field, point string)]
	nEvents  atomic.Int64
)

// OnSystem installs a handler for solves of one particular system object.
func OnSystem(sys any, h Handler) { bySystem.Store(sys, h) }
func OffSystem(sys any)           { bySystem.Delete(sys) }

// OnAll installs a handler called for every solve (after the per-system one).
func OnAll(h Handler) {
	if h == nil {
		global.Store(nil)
		return
	}
	global.Store(&h)
}

// OnYield installs the Yield callback (nil = off).
func OnYield(f func(field, point string)) {
	if f == nil {
		yield.Store(nil)
		return
	}
	yield.Store(&f)
}

func Events() int64 { return nEvents.Load() }

// Dispatch is called by the per-field adapters.
func Dispatch(ev *Event) {
	nEvents.Add(1)
	if h, ok := bySystem.Load(ev.System); ok {
		h.(Handler)(ev)
	}
	if g := global.Load(); g != nil {
		(*g)(ev)
	}
}

func DispatchYield(field, point string) {
	if f := yield.Load(); f != nil {
		(*f)(field, point)
	}
}
