//go:build verif

// Package all installs the solver hooks of every field.
package all

import (
	_ "github.com/consensys/gnark/verifharness/internal/hooks/h_babybear"
	_ "github.com/consensys/gnark/verifharness/internal/hooks/h_bls12_377"
	_ "github.com/consensys/gnark/verifharness/internal/hooks/h_bls12_381"
	_ "github.com/consensys/gnark/verifharness/internal/hooks/h_bls24_315"
	_ "github.com/consensys/gnark/verifharness/internal/hooks/h_bls24_317"
	_ "github.com/consensys/gnark/verifharness/internal/hooks/h_bn254"
	_ "github.com/consensys/gnark/verifharness/internal/hooks/h_bw6_633"
	_ "github.com/consensys/gnark/verifharness/internal/hooks/h_bw6_761"
	_ "github.com/consensys/gnark/verifharness/internal/hooks/h_koalabear"
	_ "github.com/consensys/gnark/verifharness/internal/hooks/h_tinyfield"
)
