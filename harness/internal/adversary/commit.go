//go:build verif

// Package adversary holds hint substitutes used by several monitors.
package adversary

import (
	"crypto/sha256"
	"hash"
	"math/big"
	"sync"

	"github.com/consensys/gnark/constraint/solver"
	fcs "github.com/consensys/gnark/frontend/cs"
	"github.com/consensys/gnark/internal/hints"
)

// CommitmentAsHash replaces the commitment placeholder hint (which returns a
// fresh random value when a system is solved without a prover) by SHA-256 of
// all its inputs reduced into the field: deterministic, and every change of a
// committed value moves the challenge — the Fiat-Shamir setting the gadgets
// are designed for.
func CommitmentAsHash() solver.Option {
	return solver.OverrideHint(solver.GetHintID(fcs.Bsb22CommitmentComputePlaceholder), func(m *big.Int, in, out []*big.Int) error {
		h := sha256.New()
		for _, v := range in {
			b := v.Bytes()
			h.Write([]byte{byte(len(b) >> 8), byte(len(b))})
			h.Write(b)
		}
		d := h.Sum(nil)
		d2 := sha256.Sum256(d)
		x := new(big.Int).SetBytes(append(d, d2[:]...))
		for i := range out {
			out[i].Mod(x, m)
			x.Add(x, big.NewInt(1))
		}
		return nil
	})
}

// FixedMask replaces hints.Randomize (the fresh random mask the R1CS builder
// adds to everything it commits to) by a constant, so that plain Solve calls
// are deterministic functions of the witness.
func FixedMask() solver.Option {
	return solver.OverrideHint(solver.GetHintID(hints.Randomize), func(m *big.Int, _ []*big.Int, out []*big.Int) error {
		for i := range out {
			out[i].SetInt64(int64(1234567+i)).Mod(out[i], m)
		}
		return nil
	})
}

// RecordingHash wraps a hash.Hash and records every byte written to it: what a verifier
// binds into its transcript becomes observable.
type RecordingHash struct {
	hash.Hash
	mu     sync.Mutex
	Stream []byte
}

func NewRecordingHash(h hash.Hash) *RecordingHash { return &RecordingHash{Hash: h} }

func (r *RecordingHash) Write(p []byte) (int, error) {
	r.mu.Lock()
	r.Stream = append(r.Stream, p...)
	r.mu.Unlock()
	return r.Hash.Write(p)
}
