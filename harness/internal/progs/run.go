//go:build verif

package progs

import (
	"fmt"
	"math/big"
	"reflect"
	"time"

	"github.com/consensys/gnark/constraint"
	"github.com/consensys/gnark/constraint/solver"
	"github.com/consensys/gnark/frontend"
	"github.com/consensys/gnark/frontend/cs/r1cs"
	"github.com/consensys/gnark/frontend/cs/scs"

	"github.com/consensys/gnark/verifharness/internal/circuits"
)

// Compiled is a compiled program, over a small (U32) or a curve (U64) field.
type Compiled struct {
	Prog    *Program
	Field   *big.Int
	Builder string // "r1cs" | "scs"
	Sys     any    // constraint.ConstraintSystem or constraint.ConstraintSystemU32
	solve   func(pub, sec []*big.Int, opts ...solver.Option) (any, error)
}

// Compile compiles the program; a panic inside frontend.Compile is returned as an error.
func Compile(p *Program, consts []*big.Int, field *big.Int, builder string, opts ...frontend.CompileOption) (c *Compiled, err error) {
	return compile(p, consts, field, builder, false, opts...)
}

// CompileProbe compiles the program in probe mode (see NewProbeCircuit).
func CompileProbe(p *Program, consts []*big.Int, field *big.Int, builder string, opts ...frontend.CompileOption) (c *Compiled, err error) {
	return compile(p, consts, field, builder, true, opts...)
}

func compile(p *Program, consts []*big.Int, field *big.Int, builder string, probe bool, opts ...frontend.CompileOption) (c *Compiled, err error) {
	defer func() {
		if pn := recover(); pn != nil {
			c, err = nil, fmt.Errorf("compile panic: %v", pn)
		}
	}()
	c = &Compiled{Prog: p, Field: field, Builder: builder}
	circ := NewCircuit(p, consts)
	if probe {
		circ = NewProbeCircuit(p, consts)
	}
	if constraint.FitsElement[constraint.U32](field) {
		var nb frontend.NewBuilderU32 = r1cs.NewBuilder[constraint.U32]
		if builder == "scs" {
			nb = scs.NewBuilder[constraint.U32]
		}
		sys, err := frontend.CompileU32(field, nb, circ, opts...)
		if err != nil {
			return nil, err
		}
		c.Sys = sys
		c.solve = func(pub, sec []*big.Int, so ...solver.Option) (any, error) {
			w, err := circuits.MakeWitness(field, pub, sec)
			if err != nil {
				return nil, fmt.Errorf("witness: %w", err)
			}
			return sys.Solve(w, so...)
		}
		return c, nil
	}
	var nb frontend.NewBuilder = r1cs.NewBuilder[constraint.U64]
	if builder == "scs" {
		nb = scs.NewBuilder[constraint.U64]
	}
	sys, err := frontend.Compile(field, nb, circ, opts...)
	if err != nil {
		return nil, err
	}
	c.Sys = sys
	c.solve = func(pub, sec []*big.Int, so ...solver.Option) (any, error) {
		w, err := circuits.MakeWitness(field, pub, sec)
		if err != nil {
			return nil, fmt.Errorf("witness: %w", err)
		}
		return sys.Solve(w, so...)
	}
	return c, nil
}

// Solve runs the real solver on input values in and exposed values outs.
// A panic in the caller's goroutine is returned as an error prefixed "PANIC".
func (c *Compiled) Solve(in, outs []*big.Int, opts ...solver.Option) (sol any, err error) {
	defer func() {
		if pn := recover(); pn != nil {
			sol, err = nil, fmt.Errorf("PANIC: %v", pn)
		}
	}()
	pub, sec := c.Prog.Split(in, outs)
	return c.solve(pub, sec, opts...)
}

// HintIDs lists the hints the compiled system depends on.
func (c *Compiled) HintIDs() []solver.HintID {
	m := hintDeps(c.Sys)
	ids := make([]solver.HintID, 0, len(m))
	for id := range m {
		ids = append(ids, id)
	}
	return ids
}

// hintDeps reads System.MHintsDependencies (exported field of the embedded constraint.System).
func hintDeps(sys any) map[solver.HintID]string {
	v := reflect.ValueOf(sys)
	for v.Kind() == reflect.Pointer || v.Kind() == reflect.Interface {
		v = v.Elem()
	}
	f := v.FieldByName("System")
	if !f.IsValid() {
		return nil
	}
	d := f.FieldByName("MHintsDependencies")
	if !d.IsValid() {
		return nil
	}
	m, _ := d.Interface().(map[solver.HintID]string)
	return m
}

// SolveTimeout is Solve under a watchdog: solves of these programs take milliseconds, a call
// that has not returned after d is reported as an error prefixed "TIMEOUT" (its goroutine is
// abandoned).
func (c *Compiled) SolveTimeout(d time.Duration, in, outs []*big.Int, opts ...solver.Option) (any, error) {
	type res struct {
		sol any
		err error
	}
	ch := make(chan res, 1)
	go func() {
		s, e := c.Solve(in, outs, opts...)
		ch <- res{s, e}
	}()
	select {
	case r := <-ch:
		return r.sol, r.err
	case <-time.After(d):
		return nil, fmt.Errorf("TIMEOUT: Solve did not return within %v", d)
	}
}
