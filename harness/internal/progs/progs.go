//go:build verif

// Package progs: straight-line programs over the frontend API, the generic
// circuit that interprets them in Define, and an independent big.Int reference
// interpreter of the *documented* meaning of every call (frontend/api.go).
package progs

import (
	"fmt"
	"math/big"
	"strings"

	"github.com/consensys/gnark/constraint/solver"
	"github.com/consensys/gnark/frontend"
)

type Kind uint8

const (
	Const Kind = iota
	Pub
	Sec
)

func (k Kind) String() string { return [...]string{"const", "pub", "sec"}[k] }

type Instr struct {
	Op   string
	Args []int // register indices
	N    int   // ToBinary width / plonk coefficients index
	Q    []int // plonk coefficients
}

// Program: registers 0..len(Inputs)-1 are the inputs; every instruction
// appends its result registers (assertions append none).
type Program struct {
	Inputs  []Kind
	Instrs  []Instr
	Exposed []int // registers asserted equal to a public output input
	// Lits holds the value of literal constant inputs (Inputs[i] == Const, Lits[i] != nil):
	// small compile-time constants written in the program itself (2, 3, -1 ...).
	Lits []*big.Int
}

// FillLits overwrites the entries of in that are literal constants of the program (mod p).
func (p *Program) FillLits(in []*big.Int, mod *big.Int) {
	for i := range p.Lits {
		if p.Lits[i] != nil && i < len(in) {
			in[i] = new(big.Int).Mod(p.Lits[i], mod)
		}
	}
}

func (p *Program) String() string {
	var sb strings.Builder
	sb.WriteString("in(")
	for i, k := range p.Inputs {
		if i > 0 {
			sb.WriteByte(',')
		}
		fmt.Fprintf(&sb, "r%d:%s", i, k)
		if i < len(p.Lits) && p.Lits[i] != nil {
			fmt.Fprintf(&sb, "=%v", p.Lits[i])
		}
	}
	sb.WriteString(")")
	reg := len(p.Inputs)
	for _, in := range p.Instrs {
		n := NbResults(in)
		sb.WriteString("; ")
		if n == 1 {
			fmt.Fprintf(&sb, "r%d=", reg)
		} else if n > 1 {
			fmt.Fprintf(&sb, "r%d..r%d=", reg, reg+n-1)
		}
		sb.WriteString(in.Op)
		if in.Op == "ToBinary" {
			fmt.Fprintf(&sb, "[%d]", in.N)
		}
		if len(in.Q) > 0 {
			fmt.Fprintf(&sb, "%v", in.Q)
		}
		sb.WriteByte('(')
		for i, a := range in.Args {
			if i > 0 {
				sb.WriteByte(',')
			}
			fmt.Fprintf(&sb, "r%d", a)
		}
		sb.WriteByte(')')
		reg += n
	}
	fmt.Fprintf(&sb, "; expose%v", p.Exposed)
	return sb.String()
}

// NbResults is the number of registers an instruction appends.
func NbResults(in Instr) int {
	switch in.Op {
	case "ToBinary":
		return in.N
	case "AssertIsEqual", "AssertIsDifferent", "AssertIsBoolean", "AssertIsCrumb", "AssertIsLessOrEqual", "AddPlonkConstraint":
		return 0
	}
	return 1
}

// Arity of each op (number of register arguments); -1 = variadic (>= 2).
var Arity = map[string]int{
	"Add": 2, "Add3": 3, "Sub": 2, "Sub3": 3, "Neg": 1, "Mul": 2, "Mul3": 3, "MulAcc": 3,
	"Div": 2, "DivUnchecked": 2, "Inverse": 1,
	"ToBinary": 1, "FromBinary": -1, "Xor": 2, "Or": 2, "And": 2,
	"Select": 3, "Lookup2": 6, "IsZero": 1, "Cmp": 2,
	"AssertIsEqual": 2, "AssertIsDifferent": 2, "AssertIsBoolean": 1, "AssertIsCrumb": 1, "AssertIsLessOrEqual": 2,
	"EvaluatePlonkExpression": 2, "AddPlonkConstraint": 3,
}

// NbRegs returns the total number of registers.
func (p *Program) NbRegs() int {
	n := len(p.Inputs)
	for _, in := range p.Instrs {
		n += NbResults(in)
	}
	return n
}

// ---------------------------------------------------------------- circuit

// Circuit interprets a program. Pub holds the public inputs followed by one
// public value per exposed register; Sec the secret inputs; constants are
// baked in at compile time.
type Circuit struct {
	Pub    []frontend.Variable `gnark:",public"`
	Sec    []frontend.Variable `gnark:",secret"`
	prog   *Program
	consts []*big.Int // value of each Const input (indexed by input position; nil otherwise)
	probe  bool       // C05 mode: exposed registers are fed to ProbeHint instead of being asserted
}

// ProbeHint receives the values of the exposed registers (probe mode); the
// monitors override it to read what the solver computed. Its output is unused.
func ProbeHint(_ *big.Int, in, out []*big.Int) error {
	for i := range out {
		out[i].SetInt64(0)
	}
	return nil
}

func init() { solver.RegisterHint(ProbeHint) }

// NewProbeCircuit is NewCircuit in probe mode: there is no public output and
// nothing is asserted about the exposed registers.
func NewProbeCircuit(p *Program, consts []*big.Int) *Circuit {
	c := NewCircuit(p, consts)
	c.Pub = c.Pub[:len(c.Pub)-len(p.Exposed)]
	c.probe = true
	return c
}

// NewCircuit returns the circuit value to compile; consts[i] is needed for Const inputs.
func NewCircuit(p *Program, consts []*big.Int) *Circuit {
	np, ns := 0, 0
	for _, k := range p.Inputs {
		if k == Pub {
			np++
		} else if k == Sec {
			ns++
		}
	}
	return &Circuit{Pub: make([]frontend.Variable, np+len(p.Exposed)), Sec: make([]frontend.Variable, ns), prog: p, consts: consts}
}

// Split returns the public and secret witness vectors for input values in
// and exposed-output values outs.
func (p *Program) Split(in []*big.Int, outs []*big.Int) (pub, sec []*big.Int) {
	for i, k := range p.Inputs {
		if k == Pub {
			pub = append(pub, in[i])
		} else if k == Sec {
			sec = append(sec, in[i])
		}
	}
	pub = append(pub, outs...)
	return
}

func (c *Circuit) Define(api frontend.API) error {
	p := c.prog
	regs := make([]frontend.Variable, 0, p.NbRegs())
	ip, is := 0, 0
	for i, k := range p.Inputs {
		switch k {
		case Const:
			if i < len(c.consts) && c.consts[i] != nil {
				regs = append(regs, new(big.Int).Set(c.consts[i]))
			} else if i < len(p.Lits) && p.Lits[i] != nil {
				regs = append(regs, new(big.Int).Set(p.Lits[i]))
			} else {
				return fmt.Errorf("constant input %d has no value", i)
			}
		case Pub:
			regs = append(regs, c.Pub[ip])
			ip++
		case Sec:
			regs = append(regs, c.Sec[is])
			is++
		}
	}
	for _, in := range p.Instrs {
		a := make([]frontend.Variable, len(in.Args))
		for i, r := range in.Args {
			a[i] = regs[r]
		}
		switch in.Op {
		case "Add":
			regs = append(regs, api.Add(a[0], a[1]))
		case "Add3":
			regs = append(regs, api.Add(a[0], a[1], a[2]))
		case "Sub":
			regs = append(regs, api.Sub(a[0], a[1]))
		case "Sub3":
			regs = append(regs, api.Sub(a[0], a[1], a[2]))
		case "Neg":
			regs = append(regs, api.Neg(a[0]))
		case "Mul":
			regs = append(regs, api.Mul(a[0], a[1]))
		case "Mul3":
			regs = append(regs, api.Mul(a[0], a[1], a[2]))
		case "MulAcc":
			// documented usage: copy first, the method may mutate its first operand
			acopy := api.Mul(a[0], 1)
			regs = append(regs, api.MulAcc(acopy, a[1], a[2]))
		case "Div":
			regs = append(regs, api.Div(a[0], a[1]))
		case "DivUnchecked":
			regs = append(regs, api.DivUnchecked(a[0], a[1]))
		case "Inverse":
			regs = append(regs, api.Inverse(a[0]))
		case "ToBinary":
			regs = append(regs, api.ToBinary(a[0], in.N)...)
		case "FromBinary":
			regs = append(regs, api.FromBinary(a...))
		case "Xor":
			regs = append(regs, api.Xor(a[0], a[1]))
		case "Or":
			regs = append(regs, api.Or(a[0], a[1]))
		case "And":
			regs = append(regs, api.And(a[0], a[1]))
		case "Select":
			regs = append(regs, api.Select(a[0], a[1], a[2]))
		case "Lookup2":
			regs = append(regs, api.Lookup2(a[0], a[1], a[2], a[3], a[4], a[5]))
		case "IsZero":
			regs = append(regs, api.IsZero(a[0]))
		case "Cmp":
			regs = append(regs, api.Cmp(a[0], a[1]))
		case "AssertIsEqual":
			api.AssertIsEqual(a[0], a[1])
		case "AssertIsDifferent":
			api.AssertIsDifferent(a[0], a[1])
		case "AssertIsBoolean":
			api.AssertIsBoolean(a[0])
		case "AssertIsCrumb":
			api.AssertIsCrumb(a[0])
		case "AssertIsLessOrEqual":
			api.AssertIsLessOrEqual(a[0], a[1])
		case "EvaluatePlonkExpression":
			pa, ok := api.(frontend.PlonkAPI)
			if !ok {
				// R1CS builder: same meaning through the generic API
				t := api.Add(api.Mul(a[0], in.Q[0]), api.Mul(a[1], in.Q[1]), api.Mul(api.Mul(a[0], a[1]), in.Q[2]), in.Q[3])
				regs = append(regs, t)
			} else {
				regs = append(regs, pa.EvaluatePlonkExpression(a[0], a[1], in.Q[0], in.Q[1], in.Q[2], in.Q[3]))
			}
		case "AddPlonkConstraint":
			pa, ok := api.(frontend.PlonkAPI)
			if !ok {
				t := api.Add(api.Mul(a[0], in.Q[0]), api.Mul(a[1], in.Q[1]), api.Mul(a[2], in.Q[2]), api.Mul(api.Mul(a[0], a[1]), in.Q[3]), in.Q[4])
				api.AssertIsEqual(t, 0)
			} else {
				pa.AddPlonkConstraint(a[0], a[1], a[2], in.Q[0], in.Q[1], in.Q[2], in.Q[3], in.Q[4])
			}
		default:
			return fmt.Errorf("unknown op %q", in.Op)
		}
	}
	if c.probe {
		var ex []frontend.Variable
		for _, r := range p.Exposed {
			ex = append(ex, regs[r])
		}
		if len(ex) > 0 {
			if _, err := api.Compiler().NewHint(ProbeHint, 1, ex...); err != nil {
				return err
			}
		}
		return nil
	}
	for k, r := range p.Exposed {
		api.AssertIsEqual(regs[r], c.Pub[ip+k])
	}
	return nil
}

// ---------------------------------------------------------------- reference

// Result of the reference interpreter on one assignment.
type Result struct {
	Sat    bool       // all assertions and domain conditions hold
	Reason string     // first failing condition
	Regs   []*big.Int // register values (valid up to the failing instruction)
	// FreeZero marks registers whose value is documented as unconstrained (DivUnchecked 0/0);
	// the honest solver returns 0 there.
	Free []int
	// ConstZeroDivisor: some Div / DivUnchecked / Inverse has a divisor that is a compile-time
	// constant equal to zero; the builders refuse such a circuit at compile time ("div by constant(0)").
	ConstZeroDivisor bool
	// ZeroDivisor: some Div / DivUnchecked / Inverse divides by zero under this assignment
	// (a divisor that is zero under every assignment may be folded to the constant 0 by the builders).
	ZeroDivisor bool
	// ZeroDivisorAt: indices of the instructions that divide by zero under this assignment
	ZeroDivisorAt []int
}

// DivisorIdenticallyZero reports whether some division of the program has a divisor that is
// zero under in and under nTry further assignments that keep the compile-time constants
// (Const inputs, literals) and redraw every variable input: such a divisor does not depend
// on the witness, and a builder that folded it to the constant 0 refuses the circuit at
// compile time ("div by constant(0)").  Deliberately semantic — it does not model which
// expressions the builders fold (x·0, x−x, And(0,x), …), only what they could fold.
func (p *Program) DivisorIdenticallyZero(in []*big.Int, mod *big.Int, draw func() *big.Int, nTry int) bool {
	cand := map[int]bool{}
	for _, i := range p.Eval(in, mod).ZeroDivisorAt {
		cand[i] = true
	}
	for t := 0; t < nTry && len(cand) > 0; t++ {
		v := make([]*big.Int, len(in))
		for i := range in {
			if p.Inputs[i] == Const || (i < len(p.Lits) && p.Lits[i] != nil) {
				v[i] = in[i]
			} else {
				v[i] = draw()
			}
		}
		now := map[int]bool{}
		for _, i := range p.Eval(v, mod).ZeroDivisorAt {
			now[i] = true
		}
		for i := range cand {
			if !now[i] {
				delete(cand, i)
			}
		}
	}
	return len(cand) > 0
}

func isBool(v *big.Int) bool { return v.Sign() == 0 || (v.IsInt64() && v.Int64() == 1) }

// Eval runs the documented meaning of the program over F_p.
func (p *Program) Eval(in []*big.Int, mod *big.Int) *Result {
	res := &Result{Sat: true}
	regs := make([]*big.Int, 0, p.NbRegs())
	isConst := make([]bool, 0, p.NbRegs())
	for i, v := range in {
		regs = append(regs, new(big.Int).Mod(v, mod))
		isConst = append(isConst, p.Inputs[i] == Const)
	}
	fail := func(f string, a ...any) {
		if res.Sat {
			res.Sat = false
			res.Reason = fmt.Sprintf(f, a...)
		}
	}
	norm := func(v *big.Int) *big.Int { return v.Mod(v, mod) }
	for idx, ins := range p.Instrs {
		a := make([]*big.Int, len(ins.Args))
		for i, r := range ins.Args {
			a[i] = regs[r]
		}
		t := new(big.Int)
		allConst := true
		for _, r := range ins.Args {
			allConst = allConst && isConst[r]
		}
		for k := 0; k < NbResults(ins); k++ {
			isConst = append(isConst, allConst)
		}
		switch ins.Op {
		case "Div", "DivUnchecked":
			if a[1].Sign() == 0 {
				res.ZeroDivisor = true
				res.ZeroDivisorAt = append(res.ZeroDivisorAt, idx)
				if isConst[ins.Args[1]] {
					res.ConstZeroDivisor = true
				}
			}
		case "Inverse":
			if a[0].Sign() == 0 {
				res.ZeroDivisor = true
				res.ZeroDivisorAt = append(res.ZeroDivisorAt, idx)
				if isConst[ins.Args[0]] {
					res.ConstZeroDivisor = true
				}
			}
		}
		switch ins.Op {
		case "Add":
			regs = append(regs, norm(t.Add(a[0], a[1])))
		case "Add3":
			regs = append(regs, norm(t.Add(a[0], a[1]).Add(t, a[2])))
		case "Sub":
			regs = append(regs, norm(t.Sub(a[0], a[1])))
		case "Sub3":
			regs = append(regs, norm(t.Sub(a[0], a[1]).Sub(t, a[2])))
		case "Neg":
			regs = append(regs, norm(t.Neg(a[0])))
		case "Mul":
			regs = append(regs, norm(t.Mul(a[0], a[1])))
		case "Mul3":
			regs = append(regs, norm(t.Mul(a[0], a[1]).Mul(t, a[2])))
		case "MulAcc":
			regs = append(regs, norm(t.Mul(a[1], a[2]).Add(t, a[0])))
		case "Div":
			if a[1].Sign() == 0 {
				fail("instr %d: Div by zero", idx)
				regs = append(regs, t)
			} else {
				regs = append(regs, norm(t.ModInverse(a[1], mod).Mul(t, a[0])))
			}
		case "DivUnchecked":
			if a[1].Sign() == 0 {
				if a[0].Sign() != 0 {
					fail("instr %d: DivUnchecked x/0 with x != 0", idx)
				} else {
					res.Free = append(res.Free, len(regs))
				}
				regs = append(regs, t) // 0 (unconstrained)
			} else {
				regs = append(regs, norm(t.ModInverse(a[1], mod).Mul(t, a[0])))
			}
		case "Inverse":
			if a[0].Sign() == 0 {
				fail("instr %d: Inverse of zero", idx)
				regs = append(regs, t)
			} else {
				regs = append(regs, t.ModInverse(a[0], mod))
			}
		case "ToBinary":
			if a[0].BitLen() > ins.N {
				fail("instr %d: ToBinary(%v,%d) does not fit", idx, a[0], ins.N)
			}
			for b := 0; b < ins.N; b++ {
				regs = append(regs, big.NewInt(int64(a[0].Bit(b))))
			}
		case "FromBinary":
			for i, b := range a {
				if !isBool(b) {
					fail("instr %d: FromBinary bit %d not boolean", idx, i)
				}
				t.Add(t, new(big.Int).Lsh(b, uint(i)))
			}
			regs = append(regs, norm(t))
		case "Xor", "Or", "And":
			if !isBool(a[0]) || !isBool(a[1]) {
				fail("instr %d: %s operand not boolean", idx, ins.Op)
				regs = append(regs, t)
				break
			}
			x, y := a[0].Int64(), a[1].Int64()
			var v int64
			switch ins.Op {
			case "Xor":
				v = x ^ y
			case "Or":
				v = x | y
			case "And":
				v = x & y
			}
			regs = append(regs, t.SetInt64(v))
		case "Select":
			if !isBool(a[0]) {
				fail("instr %d: Select condition not boolean", idx)
				regs = append(regs, t)
				break
			}
			if a[0].Sign() != 0 {
				regs = append(regs, t.Set(a[1]))
			} else {
				regs = append(regs, t.Set(a[2]))
			}
		case "Lookup2":
			if !isBool(a[0]) || !isBool(a[1]) {
				fail("instr %d: Lookup2 bit not boolean", idx)
				regs = append(regs, t)
				break
			}
			regs = append(regs, t.Set(a[2+int(a[0].Int64())+2*int(a[1].Int64())]))
		case "IsZero":
			if a[0].Sign() == 0 {
				t.SetInt64(1)
			}
			regs = append(regs, t)
		case "Cmp":
			regs = append(regs, norm(t.SetInt64(int64(a[0].Cmp(a[1])))))
		case "AssertIsEqual":
			if a[0].Cmp(a[1]) != 0 {
				fail("instr %d: AssertIsEqual(%v,%v)", idx, a[0], a[1])
			}
		case "AssertIsDifferent":
			if a[0].Cmp(a[1]) == 0 {
				fail("instr %d: AssertIsDifferent(%v,%v)", idx, a[0], a[1])
			}
		case "AssertIsBoolean":
			if !isBool(a[0]) {
				fail("instr %d: AssertIsBoolean(%v)", idx, a[0])
			}
		case "AssertIsCrumb":
			if a[0].BitLen() > 2 {
				fail("instr %d: AssertIsCrumb(%v)", idx, a[0])
			}
		case "AssertIsLessOrEqual":
			if a[0].Cmp(a[1]) > 0 {
				fail("instr %d: AssertIsLessOrEqual(%v,%v)", idx, a[0], a[1])
			}
		case "EvaluatePlonkExpression":
			t.Mul(a[0], big.NewInt(int64(ins.Q[0])))
			t.Add(t, new(big.Int).Mul(a[1], big.NewInt(int64(ins.Q[1]))))
			t.Add(t, new(big.Int).Mul(new(big.Int).Mul(a[0], a[1]), big.NewInt(int64(ins.Q[2]))))
			t.Add(t, big.NewInt(int64(ins.Q[3])))
			regs = append(regs, norm(t))
		case "AddPlonkConstraint":
			t.Mul(a[0], big.NewInt(int64(ins.Q[0])))
			t.Add(t, new(big.Int).Mul(a[1], big.NewInt(int64(ins.Q[1]))))
			t.Add(t, new(big.Int).Mul(a[2], big.NewInt(int64(ins.Q[2]))))
			t.Add(t, new(big.Int).Mul(new(big.Int).Mul(a[0], a[1]), big.NewInt(int64(ins.Q[3]))))
			t.Add(t, big.NewInt(int64(ins.Q[4])))
			if norm(t).Sign() != 0 {
				fail("instr %d: AddPlonkConstraint != 0", idx)
			}
		default:
			panic("unknown op " + ins.Op)
		}
	}
	res.Regs = regs
	return res
}

// Outs returns the values of the exposed registers.
func (p *Program) Outs(r *Result) []*big.Int {
	o := make([]*big.Int, len(p.Exposed))
	for i, e := range p.Exposed {
		o[i] = r.Regs[e]
	}
	return o
}
