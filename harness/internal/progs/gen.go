//go:build verif

package progs

import (
	"math/big"
	"math/rand/v2"
)

var valueOps = []string{"Add", "Add3", "Sub", "Sub3", "Neg", "Mul", "Mul3", "MulAcc", "Div", "DivUnchecked", "Inverse",
	"ToBinary", "FromBinary", "Xor", "Or", "And", "Select", "Lookup2", "IsZero", "Cmp", "EvaluatePlonkExpression"}
var assertOps = []string{"AssertIsEqual", "AssertIsDifferent", "AssertIsBoolean", "AssertIsCrumb", "AssertIsLessOrEqual", "AddPlonkConstraint"}

// Random draws a straight-line program. Boolean-typed operands are mostly taken
// from registers known to hold booleans so that many programs stay satisfiable.
func Random(rng *rand.Rand, nIn, nInstr, fieldBits int) *Program {
	p := &Program{}
	for i := 0; i < nIn; i++ {
		p.Inputs = append(p.Inputs, Kind(1+rng.IntN(2)))
	}
	nreg := nIn
	return finish(rng, p, nreg, nIn, nInstr, fieldBits)
}

// RandomWithLits is Random plus 1..3 literal constants (0, 1, 2, 3, 5, -1, -2) among the
// inputs: programs then multiply / add / compare with compile-time constants, which drives
// the builders' constant-folding and coefficient paths. The literals come after the nIn
// variable inputs; callers size assignments with len(p.Inputs) and call FillLits.
func RandomWithLits(rng *rand.Rand, nIn, nInstr, fieldBits int) *Program {
	p := &Program{}
	for i := 0; i < nIn; i++ {
		p.Inputs = append(p.Inputs, Kind(1+rng.IntN(2)))
	}
	p.Lits = make([]*big.Int, nIn)
	vals := []int64{0, 1, 2, 3, 5, -1, -2, 2, 3}
	for k := 0; k < 1+rng.IntN(3); k++ {
		p.Inputs = append(p.Inputs, Const)
		p.Lits = append(p.Lits, big.NewInt(vals[rng.IntN(len(vals))]))
	}
	return finish(rng, p, len(p.Inputs), len(p.Inputs), nInstr, fieldBits)
}

func finish(rng *rand.Rand, p *Program, nreg, nIn, nInstr, fieldBits int) *Program {
	var bools []int
	pick := func() int { return rng.IntN(nreg) }
	// scaled: registers that are a boolean register times / plus a constant (same wire with
	// another coefficient in the sparse builder); feeding them to boolean operations checks
	// that "already constrained boolean" bookkeeping is per value, not per wire
	var scaled []int
	isBool := func(r int) bool {
		for _, b := range bools {
			if b == r {
				return true
			}
		}
		return false
	}
	isLit := func(r int) bool { return r < len(p.Inputs) && p.Inputs[r] == Const }
	pickBool := func() int {
		if len(scaled) > 0 && rng.IntN(8) == 0 {
			return scaled[rng.IntN(len(scaled))]
		}
		if len(bools) > 0 && rng.IntN(10) < 9 {
			return bools[rng.IntN(len(bools))]
		}
		return pick()
	}
	for i := 0; i < nInstr; i++ {
		var op string
		if rng.IntN(6) == 0 {
			op = assertOps[rng.IntN(len(assertOps))]
		} else {
			op = valueOps[rng.IntN(len(valueOps))]
		}
		in := Instr{Op: op}
		switch op {
		case "ToBinary":
			in.N = 1 + rng.IntN(fieldBits)
			switch rng.IntN(6) {
			case 0, 1:
				in.N = fieldBits
			case 2: // more digits than the field has bits: the high bits must be zero, the low ones canonical
				in.N = fieldBits + 1 + rng.IntN(3)
			}
			in.Args = []int{pick()}
		case "FromBinary":
			n := 1 + rng.IntN(min(fieldBits-1, 8))
			for k := 0; k < n; k++ {
				in.Args = append(in.Args, pickBool())
			}
		case "Xor", "Or", "And":
			in.Args = []int{pickBool(), pickBool()}
		case "Select":
			in.Args = []int{pickBool(), pick(), pick()}
		case "Lookup2":
			in.Args = []int{pickBool(), pickBool(), pick(), pick(), pick(), pick()}
		case "AssertIsBoolean":
			in.Args = []int{pickBool()}
		case "EvaluatePlonkExpression":
			in.Args = []int{pick(), pick()}
			in.Q = []int{rng.IntN(7) - 3, rng.IntN(7) - 3, rng.IntN(5) - 2, rng.IntN(9) - 4}
		case "AddPlonkConstraint":
			// make it satisfiable by construction is not possible in general; rarely used
			in.Args = []int{pick(), pick(), pick()}
			in.Q = []int{rng.IntN(5) - 2, rng.IntN(5) - 2, rng.IntN(5) - 2, rng.IntN(3) - 1, rng.IntN(5) - 2}
		default:
			for k := 0; k < Arity[op]; k++ {
				if rng.IntN(4) == 0 && nreg > 0 && len(in.Args) > 0 {
					in.Args = append(in.Args, in.Args[0]) // repeated operand
				} else {
					in.Args = append(in.Args, pick())
				}
			}
		}
		if len(bools) > 0 && len(p.Lits) > 0 && rng.IntN(7) == 0 {
			// boolean register times a literal constant
			lit := -1
			for k := range p.Inputs {
				if isLit(k) && (lit < 0 || rng.IntN(2) == 0) {
					lit = k
				}
			}
			if lit >= 0 {
				in = Instr{Op: "Mul", Args: []int{bools[rng.IntN(len(bools))], lit}}
				if rng.IntN(2) == 0 {
					in.Args[0], in.Args[1] = in.Args[1], in.Args[0]
				}
				op = "Mul"
			}
		}
		p.Instrs = append(p.Instrs, in)
		n := NbResults(in)
		if (op == "Mul" || op == "Neg" || op == "Add" || op == "Sub") && len(in.Args) >= 1 {
			nb, nl := 0, 0
			for _, a := range in.Args {
				if isBool(a) {
					nb++
				} else if isLit(a) {
					nl++
				}
			}
			if nb == 1 && nb+nl == len(in.Args) {
				scaled = append(scaled, nreg)
			}
		}
		switch op {
		case "ToBinary", "Xor", "Or", "And", "IsZero":
			for k := 0; k < n; k++ {
				bools = append(bools, nreg+k)
			}
		}
		nreg += n
	}
	// expose up to 4 registers, preferring late ones
	seen := map[int]bool{}
	for k := 0; k < 4 && nreg > nIn; k++ {
		r := nIn + rng.IntN(nreg-nIn)
		if k == 0 {
			r = nreg - 1
		}
		if !seen[r] {
			seen[r] = true
			p.Exposed = append(p.Exposed, r)
		}
	}
	return p
}

// EdgeValue draws a field element with a strong bias to edge values.
func EdgeValue(rng *rand.Rand, p *big.Int) *big.Int {
	one := big.NewInt(1)
	switch rng.IntN(14) {
	case 0:
		return big.NewInt(0)
	case 1:
		return big.NewInt(1)
	case 2:
		return big.NewInt(2)
	case 3:
		return new(big.Int).Sub(p, one)
	case 4:
		return new(big.Int).Sub(p, big.NewInt(2))
	case 5:
		h := new(big.Int).Rsh(p, 1)
		return h.Add(h, big.NewInt(int64(rng.IntN(3)-1))).Mod(h, p)
	case 6, 7:
		k := rng.IntN(p.BitLen())
		v := new(big.Int).Lsh(one, uint(k))
		v.Add(v, big.NewInt(int64(rng.IntN(3)-1)))
		return v.Mod(v, p)
	case 8:
		return big.NewInt(int64(rng.IntN(4)))
	}
	b := make([]byte, (p.BitLen()+7)/8+8)
	for i := range b {
		b[i] = byte(rng.UintN(256))
	}
	return new(big.Int).Mod(new(big.Int).SetBytes(b), p)
}
