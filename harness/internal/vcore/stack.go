package vcore

import "runtime/debug"

func debugStack() []byte { return debug.Stack() }
