//go:build verif

package vcore

import "testing"

func TestInnermostGnark(t *testing.T) {
	st := "goroutine 7 [running]:\nruntime.mallocgc(0x28, 0xdd1f40, 0x1)\n\t/usr/lib/go/src/runtime/malloc.go:1303 +0x925\ngithub.com/consensys/gnark/std/math/emulated.(*Field[...]).mulPreCond(0xfb8ba0, 0xc0008f9c00, 0xc0008f8c80)\n\t/repo/std/math/emulated/field_mul.go:555 +0x13e\ngithub.com/consensys/gnark/verifharness/c12.run(0x1)\n\t/verif/x.go:1"
	if got := innermostGnark(st); got != "std/math/emulated.(*Field).mulPreCond" {
		t.Fatalf("got %q", got)
	}
	if got := pkgOf(innermostGnark(st)); got != "std/math/emulated" {
		t.Fatalf("got %q", got)
	}
	if got := innermostGnark("goroutine 7 [running]:\ngithub.com/consensys/gnark/verifharness/c12.run(0x1)\n\t/verif/x.go:1\ngithub.com/consensys/gnark/std/math/emulated.F(0x1)\n\t/x.go:2"); got != "" {
		t.Fatalf("harness frame innermost: got %q", got)
	}
}
