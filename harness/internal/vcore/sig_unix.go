package vcore

import "syscall"

var sigQuit = syscall.SIGQUIT
