//go:build verif

package vcore

import (
	"fmt"
	"os"
	"regexp"
	"runtime"
	"strconv"
	"strings"
	"sync"
	"time"
)

// WatchedParallel is Parallel with a non-termination monitor for in-process workloads:
// a job that has been running for longer than max(10 min, 15 x the slowest completed job
// of this call) is examined through two goroutine dumps taken 30 s apart; when its
// goroutine is inside gnark frames (not harness frames) in both, the run is ended with
// a violation "<family>/does-not-terminate/<gnark package of the innermost frame>" — the evidence is
// the pair of stacks.  The threshold is relative to the other jobs of the same family,
// so machine load (which slows all of them alike) does not trigger it; a job stuck
// outside gnark frames is reported as inconclusive and left to the go test timeout.
func WatchedParallel(r *Run, family string, n, workers int, f func(i int)) {
	if workers < 1 {
		workers = 1
	}
	type slot struct {
		job   int
		gid   int64
		start time.Time
	}
	var mu sync.Mutex
	running := map[int]*slot{}
	var maxDone time.Duration
	done := make(chan struct{})
	var wg sync.WaitGroup
	ch := make(chan int)
	for w := 0; w < workers; w++ {
		wg.Add(1)
		go func(w int) {
			defer wg.Done()
			g := goid()
			for i := range ch {
				mu.Lock()
				running[w] = &slot{i, g, time.Now()}
				mu.Unlock()
				f(i)
				mu.Lock()
				if d := time.Since(running[w].start); d > maxDone {
					maxDone = d
				}
				delete(running, w)
				mu.Unlock()
			}
		}(w)
	}
	go func() {
		t := time.NewTicker(20 * time.Second)
		defer t.Stop()
		reported := map[int]bool{}
		for {
			select {
			case <-done:
				return
			case <-t.C:
			}
			mu.Lock()
			limit := 10 * time.Minute
			if 15*maxDone > limit {
				limit = 15 * maxDone
			}
			var late []slot
			for _, s := range running {
				if time.Since(s.start) > limit && !reported[s.job] {
					late = append(late, *s)
				}
			}
			slowest := maxDone
			mu.Unlock()
			for _, s := range late {
				st1 := stackOf(s.gid)
				time.Sleep(30 * time.Second)
				st2 := stackOf(s.gid)
				mu.Lock()
				cur, still := slot{}, false
				for _, c := range running {
					if c.job == s.job {
						cur, still = *c, true
					}
				}
				mu.Unlock()
				if !still {
					continue // it finished meanwhile
				}
				reported[s.job] = true
				f1, f2 := innermostGnark(st1), innermostGnark(st2)
				if f1 == "" || f2 == "" {
					r.Inconclusive("job-overdue-outside-gnark-frames:" + family)
					continue
				}
				r.Violation(family+"/does-not-terminate/"+pkgOf(f2),
					fmt.Sprintf("job %d of family %q has been running for %s (slowest completed job of the family: %s) and its goroutine is inside gnark at two samples 30 s apart (%s, then %s)", s.job, family, time.Since(cur.start).Round(time.Second), slowest.Round(time.Millisecond), f1, f2),
					map[string]any{"family": family, "job_index": s.job, "seed": r.Seed, "tier": r.Tier, "note": "jobs are generated deterministically from (seed, family, index)", "stack_1": st1, "stack_2": st2})
				r.Finish("exploration", "run ended by the non-termination monitor; the coverage figures are what had been observed until then", []string{"non-termination is decided by a wall-clock threshold relative to the other jobs of the same family (max(10 min, 15 x slowest completed job)) plus two stack samples inside gnark frames"})
				os.Exit(1)
			}
		}
	}()
	for i := 0; i < n; i++ {
		ch <- i
	}
	close(ch)
	wg.Wait()
	close(done)
}

// pkgOf: "std/math/emulated.(*Field).reduceAndOp" -> "std/math/emulated" (the stable part of
// the class name; the functions seen are in the detail).
func pkgOf(fn string) string {
	slash := strings.LastIndex(fn, "/")
	if dot := strings.Index(fn[slash+1:], "."); dot >= 0 {
		return fn[:slash+1+dot]
	}
	return fn
}

func goid() int64 {
	var buf [64]byte
	n := runtime.Stack(buf[:], false)
	f := strings.Fields(string(buf[:n]))
	if len(f) < 2 {
		return -1
	}
	id, _ := strconv.ParseInt(f[1], 10, 64)
	return id
}

// stackOf returns the stack of goroutine gid from a full dump ("" if it no longer exists).
func stackOf(gid int64) string {
	buf := make([]byte, 1<<20)
	for {
		n := runtime.Stack(buf, true)
		if n < len(buf) {
			buf = buf[:n]
			break
		}
		buf = make([]byte, 2*len(buf))
	}
	hdr := fmt.Sprintf("goroutine %d [", gid)
	for _, blk := range strings.Split(string(buf), "\n\n") {
		if strings.HasPrefix(blk, hdr) {
			if len(blk) > 6000 {
				blk = blk[:6000]
			}
			return blk
		}
	}
	return ""
}

var reFrame = regexp.MustCompile(`(?m)^(github\.com/consensys/gnark/.+)\([^()]*\)$`)
var reGeneric = regexp.MustCompile(`\[[^\]]*\]`)

// innermostGnark returns the innermost frame of the stack that belongs to gnark itself
// (not to the harness, which lives under gnark's module path), "" if the innermost
// non-runtime frame is a harness frame or there is none.
func innermostGnark(stack string) string {
	for _, m := range reFrame.FindAllStringSubmatch(stack, -1) {
		fn := m[1]
		if strings.Contains(fn, "/verifharness/") {
			return ""
		}
		fn = reGeneric.ReplaceAllString(fn, "")
		fn = strings.TrimPrefix(fn, "github.com/consensys/gnark/")
		return fn
	}
	return ""
}
