package vcore

import (
	"encoding/json"
	"fmt"
	"os"
	"os/exec"
	"path/filepath"
	"strings"
	"time"
)

// Partial is what a child process hands back to the parent run.
type Partial struct {
	Evals        int64            `json:"evals"`
	Distinct     []uint64         `json:"distinct"`
	Counters     map[string]int64 `json:"counters"`
	Samples      []any            `json:"samples"`
	Violations   []Violation      `json:"violations"`
	ViolSeen     map[string]int   `json:"viol_seen"`
	Inconclusive map[string]int64 `json:"inconclusive"`
}

// IsChild reports whether this process is a child batch runner.
func IsChild() bool { return os.Getenv("VERIF_CHILD_OUT") != "" }

// ChildCaseStart records, before a case runs, everything needed to replay it,
// so that a process-fatal crash still leaves the input on disk.
func ChildCaseStart(desc string, input []byte) {
	p := os.Getenv("VERIF_CHILD_OUT")
	if p == "" {
		return
	}
	_ = os.WriteFile(p+".cur", []byte(fmt.Sprintf("%s\n%x\n", desc, input)), 0o644)
}

// ExportPartial writes the child's observations for the parent.
func (r *Run) ExportPartial() {
	p := os.Getenv("VERIF_CHILD_OUT")
	r.mu.Lock()
	defer r.mu.Unlock()
	pt := Partial{Evals: r.evals, Counters: r.counters, Samples: r.samples, Violations: r.violations, ViolSeen: r.violSeen, Inconclusive: r.inconclusive}
	for k := range r.distinct {
		pt.Distinct = append(pt.Distinct, k)
	}
	b, err := json.Marshal(pt)
	if err != nil {
		r.T.Fatalf("partial marshal: %v", err)
	}
	if err := os.WriteFile(p, b, 0o644); err != nil {
		r.T.Fatalf("partial write: %v", err)
	}
}

func (r *Run) mergePartial(path string) error {
	b, err := os.ReadFile(path)
	if err != nil {
		return err
	}
	var pt Partial
	if err := json.Unmarshal(b, &pt); err != nil {
		return err
	}
	r.mu.Lock()
	defer r.mu.Unlock()
	r.evals += pt.Evals
	for _, k := range pt.Distinct {
		r.distinct[k] = struct{}{}
	}
	for k, v := range pt.Counters {
		if strings.HasPrefix(k, "sampled:") {
			continue
		}
		r.counters[k] += v
	}
	for _, s := range pt.Samples {
		if len(r.samples) < 24 {
			r.samples = append(r.samples, s)
		}
	}
	for k, v := range pt.ViolSeen {
		r.violSeen[k] += v
	}
	perSig := map[string]int{}
	for _, v := range r.violations {
		perSig[v.Signature]++
	}
	for _, v := range pt.Violations {
		if perSig[v.Signature] >= 3 {
			continue
		}
		perSig[v.Signature]++
		r.violations = append(r.violations, v)
	}
	for k, v := range pt.Inconclusive {
		r.inconclusive[k] += v
	}
	return nil
}

// ChildResult describes how a child ended.
type ChildResult struct {
	OK       bool   // exited 0 and delivered its partial
	Merged   bool   // the partial was delivered and merged (possibly with a non-zero exit, e.g. "race detected")
	TimedOut bool   // watchdog fired
	Output   string // tail of the combined output
	LastCase string // content of the .cur file (case description + input hex) when it crashed
	LogPath  string
}

// RunChild re-executes the test binary for testName with extra env and merges
// the child's partial observations into r. A crash is returned, not merged.
func (r *Run) RunChild(testName, tag string, env []string, watchdog time.Duration) ChildResult {
	dir := filepath.Join(Root(), "work", r.Prop+"-children")
	_ = os.MkdirAll(dir, 0o755)
	out := filepath.Join(dir, fmt.Sprintf("%s-seed%d-%s.json", r.Tier, r.Seed, tag))
	logp := out + ".log"
	_ = os.Remove(out)
	_ = os.Remove(out + ".cur")
	lf, err := os.Create(logp)
	if err != nil {
		return ChildResult{Output: err.Error()}
	}
	defer lf.Close()
	args := []string{"-test.run=^" + testName + "$", "-test.v", "-test.timeout=0"}
	cmd := exec.Command(os.Args[0], args...)
	cmd.Env = append(os.Environ(), env...)
	cmd.Env = append(cmd.Env, "VERIF_CHILD_OUT="+out, "VERIF_EVIDENCE_DIR="+dir)
	cmd.Stdout = lf
	cmd.Stderr = lf
	if err := cmd.Start(); err != nil {
		return ChildResult{Output: err.Error(), LogPath: logp}
	}
	done := make(chan error, 1)
	go func() { done <- cmd.Wait() }()
	res := ChildResult{LogPath: logp}
	select {
	case err = <-done:
	case <-time.After(watchdog):
		res.TimedOut = true
		_ = cmd.Process.Signal(sigQuit)
		select {
		case err = <-done:
		case <-time.After(20 * time.Second):
			_ = cmd.Process.Kill()
			err = <-done
		}
	}
	if b, rerr := os.ReadFile(logp); rerr == nil {
		s := string(b)
		if len(s) > 6000 {
			s = s[:3000] + "\n…\n" + s[len(s)-3000:]
		}
		res.Output = s
	}
	if !res.TimedOut {
		if merr := r.mergePartial(out); merr == nil {
			res.Merged = true
			if err == nil {
				res.OK = true
				return res
			}
		} else if err == nil {
			res.Output += "\npartial: " + merr.Error()
		}
	}
	if b, rerr := os.ReadFile(out + ".cur"); rerr == nil {
		res.LastCase = string(b)
	}
	return res
}
