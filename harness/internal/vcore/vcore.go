// Package vcore is the common machinery of the runtime monitors: seeds, case
// accounting, three-valued verdicts, known findings, replay files and evidence.
package vcore

import (
	"crypto/sha256"
	"encoding/binary"
	"encoding/json"
	"fmt"
	"hash/fnv"
	"math/rand/v2"
	"os"
	"path/filepath"
	"sort"
	"strconv"
	"strings"
	"sync"
	"testing"
	"time"
)

// Root is the verification directory (evidence/, replay/, work/, known_findings.json).
func Root() string {
	if r := os.Getenv("VERIF_ROOT"); r != "" {
		return r
	}
	return "/verif"
}

type Violation struct {
	Signature string `json:"signature"`
	Detail    string `json:"detail"`
	Replay    string `json:"replay"`
	Known     bool   `json:"known"`
}

type knownFinding struct {
	Property  string `json:"property"`
	Signature string `json:"signature"`
	Status    string `json:"status"` // "open" | "fixed"
	What      string `json:"what"`
	Commit    string `json:"commit,omitempty"`
}

// Run accumulates what one check observed.
type Run struct {
	T     *testing.T
	Prop  string
	Tier  string
	Seed  int64
	start time.Time

	mu           sync.Mutex
	evals        int64
	distinct     map[uint64]struct{}
	counters     map[string]int64
	samples      []any
	maxSamples   int
	violations   []Violation
	violSeen     map[string]int
	inconclusive map[string]int64
	known        []knownFinding
	extra        map[string]any
	replayN      int
}

// Start reads VERIF_SEED / VERIF_TIER and the known-findings file.
func Start(t *testing.T, prop string) *Run {
	r := &Run{T: t, Prop: prop, Tier: "quick", Seed: 1, start: time.Now(),
		distinct: map[uint64]struct{}{}, counters: map[string]int64{}, maxSamples: 8,
		violSeen: map[string]int{}, inconclusive: map[string]int64{}, extra: map[string]any{}}
	if s := os.Getenv("VERIF_SEED"); s != "" {
		if v, err := strconv.ParseInt(s, 10, 64); err == nil {
			r.Seed = v
		}
	}
	if s := os.Getenv("VERIF_TIER"); s == "thorough" {
		r.Tier = "thorough"
	}
	if b, err := os.ReadFile(filepath.Join(Root(), "known_findings.json")); err == nil {
		var f struct {
			Findings []knownFinding `json:"findings"`
		}
		if err := json.Unmarshal(b, &f); err != nil {
			t.Fatalf("known_findings.json: %v", err)
		}
		r.known = f.Findings
	}
	_ = os.MkdirAll(filepath.Join(Root(), "replay", prop), 0o755)
	_ = os.MkdirAll(filepath.Join(Root(), "evidence"), 0o755)
	return r
}

func (r *Run) Quick() bool    { return r.Tier == "quick" }
func (r *Run) Thorough() bool { return r.Tier == "thorough" }

// Pick returns q in the quick tier and th in the thorough tier.
func (r *Run) Pick(q, th int) int {
	if r.Quick() {
		return q
	}
	return th
}

// Rand returns a PRNG stream determined by (seed, property, label).
func (r *Run) Rand(label string) *rand.Rand {
	h := sha256.Sum256([]byte(fmt.Sprintf("%s|%d|%s", r.Prop, r.Seed, label)))
	return rand.New(rand.NewPCG(binary.LittleEndian.Uint64(h[:8]), binary.LittleEndian.Uint64(h[8:16])))
}

// Eval records one executed case. key identifies the case (distinctness);
// nontrivial says whether it counts towards distinct_nontrivial.
func (r *Run) Eval(key string, nontrivial bool) {
	h := fnv.New64a()
	h.Write([]byte(key))
	k := h.Sum64()
	r.mu.Lock()
	r.evals++
	if nontrivial {
		r.distinct[k] = struct{}{}
	}
	r.mu.Unlock()
}

// Count adds n to a named observation counter (reported in the evidence).
func (r *Run) Count(name string, n int) {
	r.mu.Lock()
	r.counters[name] += int64(n)
	r.mu.Unlock()
}

func (r *Run) Counter(name string) int64 {
	r.mu.Lock()
	defer r.mu.Unlock()
	return r.counters[name]
}

// Sample keeps the first few actual cases for the evidence file.
func (r *Run) Sample(v any) {
	r.mu.Lock()
	if len(r.samples) < r.maxSamples {
		r.samples = append(r.samples, v)
	}
	r.mu.Unlock()
}

// SampleClass keeps at most one sample per class (and at most 24 in total).
func (r *Run) SampleClass(class string, v any) {
	r.mu.Lock()
	key := "sampled:" + class
	if r.counters[key] == 0 && len(r.samples) < 24 {
		r.counters[key] = 1
		r.samples = append(r.samples, map[string]any{"class": class, "case": v})
	}
	r.mu.Unlock()
}

func (r *Run) Set(key string, v any) {
	r.mu.Lock()
	r.extra[key] = v
	r.mu.Unlock()
}

// Inconclusive records a case whose verdict could not be decided.
func (r *Run) Inconclusive(reason string) {
	r.mu.Lock()
	r.inconclusive[reason]++
	r.mu.Unlock()
}

// Violation records a refuting observation. signature is the stable class used
// to match known findings and to de-duplicate; replay is written to
// replay/<prop>/<n>.json and its path printed on the VIOLATION line.
func (r *Run) Violation(signature, detail string, replay any) {
	r.mu.Lock()
	defer r.mu.Unlock()
	r.violSeen[signature]++
	if r.violSeen[signature] > 3 { // keep at most 3 witnesses per class
		return
	}
	v := Violation{Signature: signature, Detail: detail}
	for _, k := range r.known {
		if k.Property == r.Prop && k.Status == "open" && k.Signature == signature {
			v.Known = true
		}
	}
	r.replayN++
	p := filepath.Join(Root(), "replay", r.Prop, fmt.Sprintf("%s-seed%d-%d.json", r.Tier, r.Seed, r.replayN))
	b, err := json.MarshalIndent(map[string]any{"property": r.Prop, "signature": signature, "detail": detail,
		"seed": r.Seed, "tier": r.Tier, "case": replay}, "", " ")
	if err != nil {
		b = []byte(fmt.Sprintf("{\"property\":%q,\"signature\":%q,\"detail\":%q}", r.Prop, signature, detail))
	}
	_ = os.WriteFile(p, b, 0o644)
	v.Replay = p
	r.violations = append(r.violations, v)
}

// NViolations returns the number of un-listed violation classes seen so far.
func (r *Run) NViolations() int {
	r.mu.Lock()
	defer r.mu.Unlock()
	n := 0
	for _, v := range r.violations {
		if !v.Known {
			n++
		}
	}
	return n
}

// Require makes the run fail as *broken* (not as a violation) when a counter the
// monitor exists to observe stayed below min: a vacuous run proves nothing.
func (r *Run) Require(counter string, min int64) {
	if got := r.Counter(counter); got < min {
		r.T.Errorf("BROKEN-CHECK property=%s: monitor observed %d events of kind %q, needs >= %d (vacuous run)", r.Prop, got, counter, min)
	}
}

// Finish writes the evidence file, prints VIOLATION / KNOWN-FINDING lines and
// fails the test when an un-listed violation was seen.
func (r *Run) Finish(level, rule string, assumptions []string) {
	r.mu.Lock()
	defer r.mu.Unlock()
	cov := map[string]any{
		"evaluations":         r.evals,
		"distinct_nontrivial": len(r.distinct),
		"rule":                rule,
		"samples":             r.samples,
		"observed":            r.counters,
	}
	var inc int64
	for _, n := range r.inconclusive {
		inc += n
	}
	cov["inconclusive"] = inc
	if inc > 0 {
		cov["inconclusive_by_reason"] = r.inconclusive
	}
	for k, v := range r.extra {
		cov[k] = v
	}
	if len(r.samples) == 0 {
		cov["samples"] = []any{}
	}
	nViol, nKnown := 0, 0
	knownSigs := map[string]int{}
	var lines []string
	sort.SliceStable(r.violations, func(i, j int) bool { return r.violations[i].Signature < r.violations[j].Signature })
	for _, v := range r.violations {
		if v.Known {
			if knownSigs[v.Signature] == 0 {
				nKnown++
				lines = append(lines, fmt.Sprintf("KNOWN-FINDING: property=%s %s (%d occurrences; e.g. %s)", r.Prop, v.Signature, r.violSeen[v.Signature], v.Replay))
			}
			knownSigs[v.Signature]++
			continue
		}
		nViol++
		lines = append(lines, fmt.Sprintf("VIOLATION property=%s replay=%s", r.Prop, v.Replay))
		lines = append(lines, fmt.Sprintf("  class=%s occurrences=%d detail=%s", v.Signature, r.violSeen[v.Signature], oneLine(v.Detail)))
	}
	cov["known_findings_reproduced"] = nKnown
	ev := map[string]any{
		"property_id": r.Prop,
		"tier":        r.Tier,
		"seed":        r.Seed,
		"level":       level,
		"coverage":    cov,
		"assumptions": assumptions,
		"wall_s":      time.Since(r.start).Seconds(),
		"violations":  nViol,
	}
	b, err := json.MarshalIndent(ev, "", " ")
	if err != nil {
		r.T.Fatalf("evidence marshal: %v", err)
	}
	dir := filepath.Join(Root(), "evidence")
	if d := os.Getenv("VERIF_EVIDENCE_DIR"); d != "" {
		dir = d
	}
	if err := os.WriteFile(filepath.Join(dir, r.Prop+".json"), b, 0o644); err != nil {
		r.T.Fatalf("evidence write: %v", err)
	}
	for _, l := range lines {
		fmt.Println(l)
	}
	keys := make([]string, 0, len(r.counters))
	for k := range r.counters {
		if !strings.HasPrefix(k, "sampled:") {
			keys = append(keys, k)
		}
	}
	sort.Strings(keys)
	fmt.Printf("SUMMARY property=%s tier=%s seed=%d evaluations=%d distinct_nontrivial=%d inconclusive=%d violations=%d known=%d wall=%.1fs\n",
		r.Prop, r.Tier, r.Seed, r.evals, len(r.distinct), inc, nViol, nKnown, time.Since(r.start).Seconds())
	for _, k := range keys {
		fmt.Printf("  observed %-55s %d\n", k, r.counters[k])
	}
	if len(r.samples) == 0 {
		r.T.Errorf("BROKEN-CHECK property=%s: no sample case recorded", r.Prop)
	}
	if r.evals == 0 || len(r.distinct) < 2 {
		r.T.Errorf("BROKEN-CHECK property=%s: no cases evaluated", r.Prop)
	}
	if inc*4 > r.evals && r.evals > 0 {
		r.T.Errorf("BROKEN-CHECK property=%s: %d of %d cases inconclusive", r.Prop, inc, r.evals)
	}
	if nViol > 0 {
		r.T.Fail()
	}
}

func oneLine(s string) string {
	s = strings.ReplaceAll(s, "\n", " | ")
	if len(s) > 400 {
		s = s[:400] + "…"
	}
	return s
}

// Catch runs f and returns the recovered panic (nil if none) with its stack.
func Catch(f func()) (pan any, stack string) {
	defer func() {
		if p := recover(); p != nil {
			pan = p
			stack = string(debugStack())
		}
	}()
	f()
	return nil, ""
}

// Parallel runs f(i) for i in [0,n) on up to workers goroutines.
func Parallel(n, workers int, f func(i int)) {
	if workers < 1 {
		workers = 1
	}
	var wg sync.WaitGroup
	ch := make(chan int)
	for w := 0; w < workers; w++ {
		wg.Add(1)
		go func() {
			defer wg.Done()
			for i := range ch {
				f(i)
			}
		}()
	}
	for i := 0; i < n; i++ {
		ch <- i
	}
	close(ch)
	wg.Wait()
}
