// Package ceval is an independent big.Int evaluator of compiled constraint
// systems, working only from their exported surface (GetR1Cs / GetSparseR1Cs,
// GetCoefficient, ToBigInt). It is the oracle that decides whether an
// assignment satisfies a system, without using the solver or fr arithmetic.
package ceval

import (
	"fmt"
	"math/big"

	"github.com/consensys/gnark/constraint"
)

// Sys is the part of a typed constraint system ceval needs.
type Sys[E constraint.Element] interface {
	GetCoefficient(i int) E
	ToBigInt(E) *big.Int
	Field() *big.Int
	GetNbCoefficients() int
	GetNbPublicVariables() int
	GetNbSecretVariables() int
	GetNbInternalVariables() int
	GetNbConstraints() int
}

type R1CSSys[E constraint.Element] interface {
	Sys[E]
	GetR1Cs() []constraint.R1C
}

type SparseSys[E constraint.Element] interface {
	Sys[E]
	GetSparseR1Cs() []constraint.SparseR1C
}

// Coeffs returns the coefficient table as integers in [0,p).
func Coeffs[E constraint.Element](cs Sys[E]) []*big.Int {
	n := cs.GetNbCoefficients()
	out := make([]*big.Int, n)
	p := cs.Field()
	for i := 0; i < n; i++ {
		out[i] = cs.ToBigInt(cs.GetCoefficient(i))
		if out[i].Sign() < 0 || out[i].Cmp(p) >= 0 {
			out[i].Mod(out[i], p)
		}
	}
	return out
}

// CheckCoeffTable verifies the five reserved coefficient ids (0,1,2,-1,-2).
func CheckCoeffTable(coeffs []*big.Int, p *big.Int) error {
	want := []*big.Int{big.NewInt(0), big.NewInt(1), big.NewInt(2), new(big.Int).Sub(p, big.NewInt(1)), new(big.Int).Sub(p, big.NewInt(2))}
	for i, w := range want {
		w.Mod(w, p)
		if i >= len(coeffs) || coeffs[i].Cmp(w) != 0 {
			return fmt.Errorf("reserved coefficient id %d is %v, want %v", i, coeffs[i], w)
		}
	}
	return nil
}

func evalLE(le constraint.LinearExpression, coeffs, w []*big.Int, p *big.Int) (*big.Int, error) {
	acc := new(big.Int)
	t := new(big.Int)
	for _, term := range le {
		if int(term.CID) >= len(coeffs) || int(term.VID) >= len(w) {
			return nil, fmt.Errorf("term out of range: coeff %d wire %d", term.CID, term.VID)
		}
		t.Mul(coeffs[term.CID], w[term.VID])
		acc.Add(acc, t)
	}
	return acc.Mod(acc, p), nil
}

// R1CSResult is the outcome of evaluating all rows on a full assignment.
type R1CSResult struct {
	A, B, C []*big.Int
	BadRows []int // rows with A*B != C
}

// EvalR1CS evaluates every row of the system on the full wire vector w.
func EvalR1CS[E constraint.Element](cs R1CSSys[E], w []*big.Int) (*R1CSResult, error) {
	p := cs.Field()
	coeffs := Coeffs[E](cs)
	rows := cs.GetR1Cs()
	res := &R1CSResult{A: make([]*big.Int, len(rows)), B: make([]*big.Int, len(rows)), C: make([]*big.Int, len(rows))}
	t := new(big.Int)
	for i, r := range rows {
		var err error
		if res.A[i], err = evalLE(r.L, coeffs, w, p); err != nil {
			return nil, err
		}
		if res.B[i], err = evalLE(r.R, coeffs, w, p); err != nil {
			return nil, err
		}
		if res.C[i], err = evalLE(r.O, coeffs, w, p); err != nil {
			return nil, err
		}
		t.Mul(res.A[i], res.B[i]).Mod(t, p)
		if t.Cmp(res.C[i]) != 0 {
			res.BadRows = append(res.BadRows, i)
		}
	}
	return res, nil
}

// SparseResult is the outcome of evaluating all gates on a full assignment.
type SparseResult struct {
	BadGates   []int // gates (Commitment==NOT) whose equation does not hold
	Skipped    int   // commitment-related gates (checked by the PLONK protocol, skipped by the solver)
	Gates      []constraint.SparseR1C
	WantL      []*big.Int // expected L,R,O columns (public placeholders, gates, padding) for domain size n
	WantR      []*big.Int
	WantO      []*big.Int
	DomainSize int
}

func nextPow2(n int) int {
	r := 1
	for r < n {
		r <<= 1
	}
	return r
}

// EvalSparse evaluates every gate on w and derives the L,R,O columns that a
// correct solver must hand to the PLONK prover.
func EvalSparse[E constraint.Element](cs SparseSys[E], w []*big.Int) (*SparseResult, error) {
	p := cs.Field()
	coeffs := Coeffs[E](cs)
	gates := cs.GetSparseR1Cs()
	nbPub := cs.GetNbPublicVariables()
	n := nextPow2(len(gates) + nbPub)
	res := &SparseResult{Gates: gates, DomainSize: n,
		WantL: make([]*big.Int, n), WantR: make([]*big.Int, n), WantO: make([]*big.Int, n)}
	if len(w) == 0 {
		if len(gates) > 0 || nbPub > 0 {
			return nil, fmt.Errorf("empty wire vector")
		}
		zero := new(big.Int) // a system without wires: one all-zero row
		for i := range res.WantL {
			res.WantL[i], res.WantR[i], res.WantO[i] = zero, zero, zero
		}
		return res, nil
	}
	for i := 0; i < nbPub; i++ {
		res.WantL[i], res.WantR[i], res.WantO[i] = w[i], w[0], w[0]
	}
	acc, t := new(big.Int), new(big.Int)
	for j, g := range gates {
		for _, id := range []uint32{g.XA, g.XB, g.XC} {
			if int(id) >= len(w) {
				return nil, fmt.Errorf("gate %d wire %d out of range", j, id)
			}
		}
		for _, id := range []uint32{g.QL, g.QR, g.QO, g.QM, g.QC} {
			if int(id) >= len(coeffs) {
				return nil, fmt.Errorf("gate %d coeff %d out of range", j, id)
			}
		}
		a, b, c := w[g.XA], w[g.XB], w[g.XC]
		res.WantL[nbPub+j], res.WantR[nbPub+j], res.WantO[nbPub+j] = a, b, c
		if g.Commitment != constraint.NOT {
			res.Skipped++
			continue
		}
		acc.Mul(coeffs[g.QL], a)
		acc.Add(acc, t.Mul(coeffs[g.QR], b))
		acc.Add(acc, t.Mul(coeffs[g.QO], c))
		t.Mul(a, b)
		acc.Add(acc, t.Mul(t, coeffs[g.QM]))
		acc.Add(acc, coeffs[g.QC])
		if acc.Mod(acc, p).Sign() != 0 {
			res.BadGates = append(res.BadGates, j)
		}
	}
	for i := nbPub + len(gates); i < n; i++ {
		res.WantL[i], res.WantR[i], res.WantO[i] = w[0], w[0], w[0]
	}
	return res, nil
}

// ColumnsResult classifies what an (L,R,O) triple of columns violates.
type ColumnsResult struct {
	BadGates  []int // gate indices whose equation fails on the row values
	BadCopies []int // wire ids whose positions do not all hold one value
	BadPublic []int // public placeholder rows whose L differs from the public input
}

func (c *ColumnsResult) Clean() bool {
	return len(c.BadGates) == 0 && len(c.BadCopies) == 0 && len(c.BadPublic) == 0
}

// CheckColumns evaluates the PLONK relation row by row on explicit columns:
// gate equations on the row's own values, copy constraints (every position of a
// wire holds the same value; unused slots and padding belong to wire 0), and
// the public rows against pub (pub[i] is wire i, including wire 0 if public).
func CheckColumns[E constraint.Element](cs SparseSys[E], L, R, O []*big.Int, pub []*big.Int) (*ColumnsResult, error) {
	p := cs.Field()
	coeffs := Coeffs[E](cs)
	gates := cs.GetSparseR1Cs()
	nbPub := cs.GetNbPublicVariables()
	n := nextPow2(len(gates) + nbPub)
	if len(L) != n || len(R) != n || len(O) != n {
		return nil, fmt.Errorf("column length %d/%d/%d, want %d", len(L), len(R), len(O), n)
	}
	res := &ColumnsResult{}
	nbWires := cs.GetNbPublicVariables() + cs.GetNbSecretVariables() + cs.GetNbInternalVariables()
	val := make([]*big.Int, nbWires)
	bad := make([]bool, nbWires)
	see := func(w int, v *big.Int) {
		if val[w] == nil {
			val[w] = v
		} else if val[w].Cmp(v) != 0 {
			bad[w] = true
		}
	}
	for i := 0; i < nbPub; i++ {
		see(i, L[i])
		see(0, R[i])
		see(0, O[i])
		if i < len(pub) && L[i].Cmp(pub[i]) != 0 {
			res.BadPublic = append(res.BadPublic, i)
		}
	}
	acc, t := new(big.Int), new(big.Int)
	for j, g := range gates {
		row := nbPub + j
		a, b, c := L[row], R[row], O[row]
		see(int(g.XA), a)
		see(int(g.XB), b)
		see(int(g.XC), c)
		if g.Commitment != constraint.NOT {
			continue
		}
		acc.Mul(coeffs[g.QL], a)
		acc.Add(acc, t.Mul(coeffs[g.QR], b))
		acc.Add(acc, t.Mul(coeffs[g.QO], c))
		t.Mul(a, b)
		acc.Add(acc, t.Mul(t, coeffs[g.QM]))
		acc.Add(acc, coeffs[g.QC])
		if acc.Mod(acc, p).Sign() != 0 {
			res.BadGates = append(res.BadGates, j)
		}
	}
	for i := nbPub + len(gates); i < n; i++ {
		see(0, L[i])
		see(0, R[i])
		see(0, O[i])
	}
	for w, b := range bad {
		if b {
			res.BadCopies = append(res.BadCopies, w)
		}
	}
	return res, nil
}
