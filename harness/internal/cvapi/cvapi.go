// Package cvapi is the curve-agnostic face of the per-curve harness code in
// curves/<curve> (written once for bn254, instantiated for the other six
// curves by textual substitution: see curves/gen.sh).
package cvapi

import (
	"math/big"

	"github.com/consensys/gnark-crypto/ecc"
)

// Edit is one edited copy of an object (proof, key, contribution).
type Edit struct {
	Name    string // e.g. "Ar:=neg", "Commitments[1]:=donor0.Commitments[1]"
	Obj     any    // the edited deep copy
	Changed bool   // false when the edited object still Equals the original (trivial)
}

// Elem is one named group element of a proof (compressed encoding, hex).
type Elem struct{ Name, Hex string }

// Item is a named byte string (something that must be bound into a transcript).
type Item struct {
	Name  string
	Bytes []byte
}

type Ops struct {
	ID   ecc.ID
	Name string

	// Groth16 (proof any = *groth16_<curve>.Proof, vk any = *VerifyingKey)
	G16Clone           func(p any) any
	G16SingleEdits     func(p any, donors []any, vk any) []Edit
	G16ListEdits       func(p any, donors []any) []Edit
	G16Surplus         func(p any, vk any, oldPub, newPub []*big.Int) any
	G16KInfinity       func(vk any) []bool
	G16NbCommitments   func(vk any) int
	G16ProofEqual      func(a, b any) bool
	G16DeclaredLens    func(b []byte) []uint32
	G16PrefixOffsets   func(b []byte) []int
	PlonkPrefixOffsets func(b []byte) []int

	// PLONK
	PlonkClone        func(p any) any
	PlonkSingleEdits  func(p any, donors []any, vk any) []Edit
	PlonkListEdits    func(p any, donors []any) []Edit
	PlonkProofEqual   func(a, b any) bool
	PlonkNbQcp        func(vk any) int
	PlonkDeclaredLens func(b []byte) []uint32

	G16Elems   func(p any) []Elem
	PlonkElems func(p any) []Elem

	PlonkBoundItems func(proof, vk any, pub []*big.Int) []Item
	G16BoundItems   func(proof, vk any, pub []*big.Int) []Item

	// extended per-property entry points are added as separate fields below
	Ext map[string]any
}

// MaxDeclaredLen is the cap on length prefixes in generated hostile encodings.
const MaxDeclaredLen = 1 << 16

// LensOK reports whether every declared length is within the cap.
func LensOK(lens []uint32) bool {
	for _, l := range lens {
		if l > MaxDeclaredLen {
			return false
		}
	}
	return true
}
