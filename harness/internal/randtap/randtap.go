// Package randtap swaps crypto/rand.Reader (in the harness process only) for a
// tap that records, replays-with-substitution or zeroes every read of prover
// randomness (gnark-crypto's SetRandom, crypto/rand.Int and gnark's
// hints.Randomize all read that variable).
package randtap

import (
	"crypto/rand"
	"io"
	"math/big"
	"runtime"
	"strings"
	"sync"
)

type Read struct {
	Seq   int
	Bytes []byte
	Site  string // top non-runtime, non-crypto/rand, non-randtap frame
}

type Tap struct {
	mu       sync.Mutex
	os       io.Reader
	mode     int // 0 record, 1 zero, 2 replay
	reads    []Read
	replay   []Read
	subst    map[int]bool // replay: indices served fresh instead of recorded
	accept   func([]byte) bool
	pos      int
	Mismatch bool // replay: a read did not match the recorded length
	// Exhausted: zero mode served more than zeroReadsLimit reads (the consumer kept re-sampling)
	Exhausted bool
}

const zeroReadsLimit = 256

const (
	Record = iota
	Zero
	Replay
)

// Install replaces crypto/rand.Reader; call Restore when done. Not re-entrant.
func Install(mode int) *Tap {
	t := &Tap{os: rand.Reader, mode: mode}
	rand.Reader = t
	return t
}

// InstallReplay serves the recorded reads again, except the indices in subst which get fresh OS
// bytes; when accept is non-nil the fresh bytes are re-drawn until accept says the sampler will
// keep them, so that the number and order of reads stay those of the recording.
func InstallReplay(recorded []Read, subst map[int]bool, accept func([]byte) bool) *Tap {
	t := &Tap{os: rand.Reader, mode: Replay, replay: recorded, subst: subst, accept: accept}
	rand.Reader = t
	return t
}

// ScalarAccept mimics the rejection rule of gnark-crypto's Element.SetRandom for a field of
// the given modulus: little-endian bytes, unused top bits cleared, kept iff below the modulus.
func ScalarAccept(mod *big.Int) func([]byte) bool {
	bitLen := mod.BitLen()
	k := (bitLen + 7) / 8
	b := uint(bitLen % 8)
	if b == 0 {
		b = 8
	}
	return func(p []byte) bool {
		if len(p) != k {
			return true // not a scalar sample
		}
		be := make([]byte, k)
		for i := range p {
			be[k-1-i] = p[i]
		}
		be[0] &= uint8(int(1<<b) - 1)
		return new(big.Int).SetBytes(be).Cmp(mod) < 0
	}
}

func (t *Tap) Restore() { rand.Reader = t.os }

func site() string {
	pcs := make([]uintptr, 24)
	n := runtime.Callers(3, pcs)
	fr := runtime.CallersFrames(pcs[:n])
	for {
		f, more := fr.Next()
		fn := f.Function
		if fn != "" && !strings.HasPrefix(fn, "crypto/rand") && !strings.HasPrefix(fn, "io.") && !strings.Contains(fn, "randtap") &&
			!strings.HasPrefix(fn, "math/big") && !strings.HasPrefix(fn, "runtime.") {
			return fn
		}
		if !more {
			return "?"
		}
	}
}

func (t *Tap) Read(p []byte) (int, error) {
	t.mu.Lock()
	defer t.mu.Unlock()
	seq := len(t.reads)
	switch t.mode {
	case Zero:
		// a prover may re-sample until a scalar is non-zero: after a generous number of zero
		// reads the stream turns into a non-zero constant so that such a loop ends (Exhausted)
		fill := byte(0)
		if len(t.reads) >= zeroReadsLimit {
			fill = 1
			t.Exhausted = true
		}
		for i := range p {
			p[i] = fill
		}
	case Replay:
		if t.pos < len(t.replay) && len(t.replay[t.pos].Bytes) == len(p) && !t.subst[t.pos] {
			copy(p, t.replay[t.pos].Bytes)
		} else {
			if t.pos >= len(t.replay) || len(t.replay[t.pos].Bytes) != len(p) {
				t.Mismatch = true
			}
			for {
				if _, err := io.ReadFull(t.os, p); err != nil {
					return 0, err
				}
				if t.accept == nil || t.accept(p) {
					break
				}
			}
		}
		t.pos++
	default:
		if _, err := io.ReadFull(t.os, p); err != nil {
			return 0, err
		}
	}
	t.reads = append(t.reads, Read{Seq: seq, Bytes: append([]byte{}, p...), Site: site()})
	return len(p), nil
}

// Reads returns the reads seen so far.
func (t *Tap) Reads() []Read {
	t.mu.Lock()
	defer t.mu.Unlock()
	return append([]Read{}, t.reads...)
}
