//go:build verif

// C04 — Compiled R1CS and sparse R1CS compute exactly what the circuit specifies.
// Reference-model monitor: generated programs over the frontend API are compiled
// by the real builders and solved by the real solver; an independent big.Int
// interpreter of the documented meaning decides what must come out. The C06
// monitor re-validates every solution seen.
package c04

import (
	"fmt"
	"math/big"
	"math/rand/v2"
	"strings"
	"testing"

	"github.com/consensys/gnark-crypto/ecc"
	"github.com/consensys/gnark/constraint/solver"
	"github.com/consensys/gnark/frontend"
	"github.com/consensys/gnark/internal/smallfields/tinyfield"

	"github.com/consensys/gnark/verifharness/internal/c06mon"
	"github.com/consensys/gnark/verifharness/internal/progs"
	"github.com/consensys/gnark/verifharness/internal/vcore"
)

var tiny = tinyfield.Modulus() // 47

var sweepOps = []string{"Add", "Sub", "Neg", "Mul", "MulAcc", "Add3", "Sub3", "Mul3", "Div", "DivUnchecked", "Inverse", "ToBinary", "FromBinary",
	"Xor", "Or", "And", "Select", "Lookup2", "IsZero", "Cmp", "AssertIsEqual", "AssertIsDifferent", "AssertIsBoolean", "AssertIsCrumb", "AssertIsLessOrEqual",
	"EvaluatePlonkExpression"}

type tcase struct {
	r *vcore.Run
}

func inc(v *big.Int, p *big.Int) *big.Int {
	return new(big.Int).Mod(new(big.Int).Add(v, big.NewInt(1)), p)
}

func vs(v []*big.Int) string {
	s := make([]string, len(v))
	for i := range v {
		s[i] = v[i].String()
	}
	return strings.Join(s, ",")
}

// checkOne runs the real solver for one (compiled program, assignment) and compares with the reference.
// Returns false when a violation was recorded.
func checkOne(r *vcore.Run, c *progs.Compiled, consts []*big.Int, in []*big.Int, label string) {
	p := c.Prog
	ref := p.Eval(in, c.Field)
	outs := p.Outs(ref)
	key := fmt.Sprintf("%s|%s|%s|%s|%s", label, c.Builder, p, vs(in), c.Field)
	rep := func() map[string]any {
		return map[string]any{"program": p.String(), "builder": c.Builder, "field": c.Field.String(), "inputs": vs(in), "kinds": fmt.Sprint(p.Inputs),
			"reference_sat": ref.Sat, "reference_reason": ref.Reason, "reference_outs": vs(outs)}
	}
	sig := func(kind string) string { return kind + "/" + c.Builder + "/" + opsOf(p) }
	r.Eval(key, true)
	_, err := c.Solve(in, outs, solver.WithNbTasks(1))
	if err != nil && strings.HasPrefix(err.Error(), "PANIC") {
		r.Count("solve.PANIC", 1)
		m := rep()
		m["error"] = err.Error()
		r.Violation(sig("solver-panic"), err.Error(), m)
		return
	}
	if ref.Sat {
		if err != nil {
			r.Count("solve.REJECTED-satisfying", 1)
			m := rep()
			m["error"] = firstLine(err.Error())
			r.Violation(sig("rejects-satisfying-assignment"), "reference says satisfiable, Solve says: "+firstLine(err.Error()), m)
			return
		}
		r.Count("solve.accepted(expected)", 1)
		r.SampleClass(label+"/"+c.Builder+"/"+opsOf(p)+"/accepted", rep())
		// a wrong exposed value must be rejected
		if len(outs) > 0 {
			k := len(in) % len(outs)
			wrong := append([]*big.Int{}, outs...)
			wrong[k] = inc(outs[k], c.Field)
			isFree := false
			for _, f := range ref.Free {
				if f == p.Exposed[k] {
					isFree = true // documented unconstrained value
				}
			}
			if _, err2 := c.Solve(in, wrong, solver.WithNbTasks(1)); err2 == nil && !isFree {
				// the honest solver computes the register itself; accepting another exposed value is impossible
				// unless the equality with the public output is not enforced
				r.Count("solve.ACCEPTED-wrong-output", 1)
				m := rep()
				m["wrong_outs"] = vs(wrong)
				r.Violation(sig("accepts-wrong-output"), "Solve accepted an exposed value different from the documented result", m)
			} else {
				r.Count("solve.rejected-wrong-output", 1)
			}
		}
		return
	}
	if err == nil {
		r.Count("solve.ACCEPTED-unsatisfiable", 1)
		r.Violation(sig("accepts-violating-assignment"), "reference says unsatisfiable ("+ref.Reason+"), Solve accepted", rep())
		return
	}
	r.Count("solve.rejected(expected)", 1)
	r.SampleClass(label+"/"+c.Builder+"/"+opsOf(p)+"/rejected", rep())
}

func firstLine(s string) string {
	if i := strings.IndexByte(s, '\n'); i >= 0 {
		return s[:i]
	}
	return s
}

func opsOf(p *progs.Program) string {
	if len(p.Instrs) == 1 {
		return p.Instrs[0].Op
	}
	return "program"
}

// singleOp builds the one-instruction program for op with the given operand kinds.
func singleOp(op string, kinds []progs.Kind, n int) *progs.Program {
	p := &progs.Program{Inputs: kinds}
	in := progs.Instr{Op: op, N: n}
	for i := range kinds {
		in.Args = append(in.Args, i)
	}
	if op == "EvaluatePlonkExpression" {
		in.Q = []int{2, -3, 1, 5}
	}
	p.Instrs = []progs.Instr{in}
	for k := 0; k < progs.NbResults(in); k++ {
		p.Exposed = append(p.Exposed, len(kinds)+k)
	}
	// the operands are exposed again after the operation: an API call must not change the
	// value of a variable the caller still holds (only MulAcc documents that it may)
	for i, k := range kinds {
		if k != progs.Const {
			p.Exposed = append(p.Exposed, i)
		}
	}
	return p
}

func arity(op string) int {
	if op == "FromBinary" {
		return 3
	}
	return progs.Arity[op]
}

// sweep: every op x operand-kind combination x input tuples over the 47-element field.
func sweep(r *vcore.Run) {
	type job struct {
		op      string
		mask    int // bit i set = operand i is a constant
		builder string
	}
	var jobs []job
	for _, op := range sweepOps {
		a := arity(op)
		for mask := 0; mask < 1<<a; mask++ {
			if a > 3 && mask != 0 && mask != (1<<a)-1 && mask != 0b000011 && mask != 0b111100 && mask != 0b010101 {
				continue // Lookup2: five kind patterns
			}
			for _, b := range []string{"r1cs", "scs"} {
				jobs = append(jobs, job{op, mask, b})
			}
		}
	}
	vcore.Parallel(len(jobs), 14, func(ji int) {
		j := jobs[ji]
		a := arity(j.op)
		rng := r.Rand(fmt.Sprintf("sweep/%s/%d/%s", j.op, j.mask, j.builder))
		kinds := make([]progs.Kind, a)
		var cidx, vidx []int
		for i := 0; i < a; i++ {
			if j.mask>>i&1 == 1 {
				kinds[i] = progs.Const
				cidx = append(cidx, i)
			} else {
				kinds[i] = progs.Kind(1 + i%2) // alternate public / secret
				vidx = append(vidx, i)
			}
		}
		n := 0
		if j.op == "ToBinary" {
			n = 6
		}
		prog := singleOp(j.op, kinds, n)
		if j.op == "ToBinary" { // also a short width and one wider than the field
			defer func() {
				p3 := singleOp(j.op, kinds, 3)
				sweepProgram(r, rng, p3, cidx, vidx, j.builder)
				p8 := singleOp(j.op, kinds, 8)
				sweepProgram(r, rng, p8, cidx, vidx, j.builder)
			}()
		}
		sweepProgram(r, rng, prog, cidx, vidx, j.builder)
	})
}

// tuples enumerates all (or a sample of) tuples in [0,47)^k.
func tuples(rng *rand.Rand, k int, budget int, f func(t []int)) {
	total := 1
	for i := 0; i < k; i++ {
		total *= 47
	}
	if total <= budget {
		t := make([]int, k)
		for x := 0; x < total; x++ {
			y := x
			for i := 0; i < k; i++ {
				t[i] = y % 47
				y /= 47
			}
			f(t)
		}
		return
	}
	t := make([]int, k)
	for x := 0; x < budget; x++ {
		for i := range t {
			switch rng.IntN(6) {
			case 0:
				t[i] = rng.IntN(3)
			case 1:
				t[i] = 46 - rng.IntN(2)
			default:
				t[i] = rng.IntN(47)
			}
		}
		f(t)
	}
}

func sweepProgram(r *vcore.Run, rng *rand.Rand, prog *progs.Program, cidx, vidx []int, builder string) {
	a := len(prog.Inputs)
	constBudget := r.Pick(47, 2209)
	if len(cidx) >= 3 {
		constBudget = r.Pick(60, 600)
	}
	varBudget := r.Pick(2209, 103823)
	if len(cidx) > 0 {
		varBudget = r.Pick(150, 2209)
	}
	tuples(rng, len(cidx), constBudget, func(ct []int) {
		consts := make([]*big.Int, a)
		in := make([]*big.Int, a)
		for k, i := range cidx {
			consts[i] = big.NewInt(int64(ct[k]))
			in[i] = consts[i]
		}
		c, err := progs.Compile(prog, consts, tiny, builder)
		r.Count("compilations", 1)
		if err != nil {
			// a compile-time refusal is legitimate only when no assignment satisfies the program
			r.Count("compile.refused", 1)
			bad := false
			tuples(rng, len(vidx), 2209, func(vt []int) {
				if bad {
					return
				}
				for k, i := range vidx {
					in[i] = big.NewInt(int64(vt[k]))
				}
				if ref := prog.Eval(in, tiny); ref.Sat && !(byConstZero(err) && prog.DivisorIdenticallyZero(in, tiny, func() *big.Int { return big.NewInt(int64(rng.IntN(47))) }, 8)) {
					bad = true
					r.Violation("compile-refuses-satisfiable-program/"+builder+"/"+prog.Instrs[0].Op, "Compile failed ("+firstLine(err.Error())+") but the program is satisfiable",
						map[string]any{"program": prog.String(), "consts": fmt.Sprint(ct), "builder": builder, "inputs": vs(in)})
				}
			})
			r.Eval(fmt.Sprintf("compile-refused|%s|%s|%v", prog, builder, ct), true)
			if !bad {
				r.Count("compile.refused(unsatisfiable-for-all-assignments,ok)", 1)
			}
			return
		}
		tuples(rng, len(vidx), varBudget, func(vt []int) {
			for k, i := range vidx {
				in[i] = big.NewInt(int64(vt[k]))
			}
			checkOne(r, c, consts, in, "sweep")
		})
	})
}

func TestC04(t *testing.T) {
	r := vcore.Start(t, "C04")
	mon := c06mon.Install(r, r.Pick(7, 3))
	defer mon.Uninstall()
	sweep(r)
	aliasSweep(r)
	derivedSweep(r)
	repeatSweep(r)
	programs(r)
	r.Require("solve.accepted(expected)", 1000)
	r.Require("solve.rejected(expected)", 1000)
	r.Require("solve.rejected-wrong-output", 1000)
	r.Require("c06.solutions-revalidated", 100)
	r.Finish("exploration",
		"(i) single-operation sweep over the 47-element field: every API call x every constant/variable operand pattern x input tuples (exhaustive for <=2 variable operands in quick, <=3 in thorough; constants exhaustive or sampled) on both builders; (ii) random straight-line programs (5-60 instructions, repeated operands, boolean-typed registers) over tinyfield, bn254, bls12-377 and bw6-761 with edge-biased assignments, each in variants: one input reclassified constant<->variable, compress threshold 2/5/300, r1cs vs scs. Oracle: big.Int interpreter of the documented meaning; expected value accepted, value+1 rejected, documented-unsatisfiable inputs rejected; compile-time refusal only when no assignment satisfies. distinct = (program, builder, field, inputs)",
		[]string{"ToBinary(v,n) is taken to be unsatisfiable when v needs more than n bits", "DivUnchecked(0,0): the returned 0 is documented as unconstrained; the honest solver must still succeed", "the test engine is not consulted"})
}

// programs: random multi-instruction programs, variants must agree with the reference.
func programs(r *vcore.Run) {
	fields := []struct {
		name string
		mod  *big.Int
	}{{"tinyfield", tiny}, {"bn254", ecc.BN254.ScalarField()}, {"bls12-377", ecc.BLS12_377.ScalarField()}, {"bw6-761", ecc.BW6_761.ScalarField()}}
	n := r.Pick(300, 6000)
	vcore.Parallel(n, 14, func(i int) {
		rng := r.Rand(fmt.Sprintf("prog/%d", i))
		f := fields[i%len(fields)]
		nIn := 1 + rng.IntN(4)
		var prog *progs.Program
		if i%2 == 0 {
			prog = progs.Random(rng, nIn, 3+rng.IntN(r.Pick(25, 58)), f.mod.BitLen())
		} else { // with literal constants: constant-folding and coefficient paths of the builders
			prog = progs.RandomWithLits(rng, nIn, 3+rng.IntN(r.Pick(25, 58)), f.mod.BitLen())
			nIn = len(prog.Inputs)
		}
		// assignments
		var assigns [][]*big.Int
		na := r.Pick(6, 12)
		if f.name == "tinyfield" && nIn <= 2 {
			tuples(rng, nIn, 2209, func(t []int) {
				in := make([]*big.Int, nIn)
				for k := range t {
					in[k] = big.NewInt(int64(t[k]))
				}
				prog.FillLits(in, f.mod)
				assigns = append(assigns, in)
			})
		} else {
			for k := 0; k < na; k++ {
				in := make([]*big.Int, nIn)
				for q := range in {
					in[q] = progs.EdgeValue(rng, f.mod)
				}
				prog.FillLits(in, f.mod)
				assigns = append(assigns, in)
			}
		}
		type variant struct {
			name    string
			prog    *progs.Program
			consts  func(in []*big.Int) []*big.Int
			opts    []frontend.CompileOption
			builder string
		}
		var vars []variant
		for _, b := range []string{"r1cs", "scs"} {
			vars = append(vars, variant{"base", prog, nil, nil, b})
			vars = append(vars, variant{"compress2", prog, nil, []frontend.CompileOption{frontend.WithCompressThreshold(2)}, b})
			if i%2 == 0 {
				vars = append(vars, variant{"compress5", prog, nil, []frontend.CompileOption{frontend.WithCompressThreshold(5)}, b})
			}
		}
		r.Count("programs", 1)
		for _, v := range vars {
			c, err := progs.Compile(v.prog, nil, f.mod, v.builder, v.opts...)
			r.Count("compilations", 1)
			if err != nil {
				// with variable inputs only, compile may legitimately refuse when an assertion on folded constants fails
				sat := false
				for _, in := range assigns {
					if ref := prog.Eval(in, f.mod); ref.Sat && !(byConstZero(err) && prog.DivisorIdenticallyZero(in, f.mod, func() *big.Int { return uniform(rng, f.mod) }, 8)) {
						sat = true
						r.Violation("compile-refuses-satisfiable-program/"+v.builder+"/program", "Compile failed ("+firstLine(err.Error())+") but the program is satisfiable",
							map[string]any{"program": prog.String(), "builder": v.builder, "field": f.name, "inputs": vs(in)})
						break
					}
				}
				if !sat {
					r.Count("compile.refused(no-satisfying-assignment-known)", 1)
				}
				continue
			}
			for _, in := range assigns {
				checkOne(r, c, nil, in, "prog/"+v.name)
			}
		}
		// const <-> variable reclassification of one input, per assignment (a constant is baked at compile time)
		for ai, in := range assigns {
			if ai >= 3 {
				break
			}
			ci := rng.IntN(nIn)
			if prog.Inputs[ci] == progs.Const {
				continue
			}
			p2 := *prog
			p2.Inputs = append([]progs.Kind{}, prog.Inputs...)
			p2.Inputs[ci] = progs.Const
			consts := make([]*big.Int, nIn)
			consts[ci] = in[ci]
			for _, b := range []string{"r1cs", "scs"} {
				c, err := progs.Compile(&p2, consts, f.mod, b)
				r.Count("compilations", 1)
				if err != nil {
					if ref := p2.Eval(in, f.mod); ref.Sat && !(byConstZero(err) && p2.DivisorIdenticallyZero(in, f.mod, func() *big.Int { return uniform(rng, f.mod) }, 8)) {
						r.Violation("compile-refuses-satisfiable-program/"+b+"/program-const-variant", "Compile failed ("+firstLine(err.Error())+") but the assignment satisfies the program",
							map[string]any{"program": p2.String(), "builder": b, "field": f.name, "inputs": vs(in)})
					} else {
						r.Count("compile.refused(unsatisfiable-with-this-constant,ok)", 1)
					}
					continue
				}
				checkOne(r, c, consts, in, "prog/const-variant")
			}
		}
	})
}

// aliasSweep: two boolean-consuming operations applied to the same variable, the second
// time scaled by a constant (in the sparse builder: the same wire with another coefficient;
// in R1CS: a linear expression over the same wire). "Already constrained" bookkeeping and
// gate sharing must be per value. Inputs exhaustive over the 47-element field.
func aliasSweep(r *vcore.Run) {
	boolOps := []string{"AssertIsBoolean", "Xor", "Or", "And", "Select", "FromBinary", "Lookup2", "AssertIsCrumb"}
	type job struct {
		op1, op2 string
		k        int64
		builder  string
	}
	var jobs []job
	for _, a := range boolOps {
		for _, b := range boolOps {
			for _, k := range []int64{2, -1, 3} {
				for _, bl := range []string{"r1cs", "scs"} {
					jobs = append(jobs, job{a, b, k, bl})
				}
			}
		}
	}
	mk := func(op string, x, y int) progs.Instr {
		switch op {
		case "AssertIsBoolean", "AssertIsCrumb":
			return progs.Instr{Op: op, Args: []int{x}}
		case "Select":
			return progs.Instr{Op: op, Args: []int{x, y, x}}
		case "FromBinary":
			return progs.Instr{Op: op, Args: []int{x, y}}
		case "Lookup2":
			return progs.Instr{Op: op, Args: []int{x, y, x, y, y, x}}
		}
		return progs.Instr{Op: op, Args: []int{x, y}}
	}
	vcore.Parallel(len(jobs), 14, func(ji int) {
		j := jobs[ji]
		// inputs: r0 = x (secret), r1 = y (public), r2 = literal k
		p := &progs.Program{Inputs: []progs.Kind{progs.Sec, progs.Pub, progs.Const}, Lits: []*big.Int{nil, nil, big.NewInt(j.k)}}
		i1 := mk(j.op1, 0, 1)
		p.Instrs = append(p.Instrs, i1)
		reg := 3 + progs.NbResults(i1)
		p.Instrs = append(p.Instrs, progs.Instr{Op: "Mul", Args: []int{0, 2}}) // k*x
		scaledReg := reg
		reg++
		i2 := mk(j.op2, scaledReg, 1)
		p.Instrs = append(p.Instrs, i2)
		for q := 3; q < reg+progs.NbResults(i2); q++ {
			p.Exposed = append(p.Exposed, q)
		}
		c, err := progs.Compile(p, nil, tiny, j.builder)
		r.Count("compilations", 1)
		if err != nil {
			r.Count("alias.compile-refused", 1)
			return
		}
		rng := r.Rand(fmt.Sprintf("alias/%d", ji))
		budget := r.Pick(400, 2209)
		tuples(rng, 2, budget, func(t []int) {
			in := []*big.Int{big.NewInt(int64(t[0])), big.NewInt(int64(t[1])), nil}
			if budget < 2209 && rng.IntN(3) == 0 { // boolean-valued inputs are where aliasing shows
				in[0], in[1] = big.NewInt(int64(rng.IntN(2))), big.NewInt(int64(rng.IntN(2)))
			}
			p.FillLits(in, tiny)
			checkOne(r, c, nil, in, "alias")
		})
		r.Count("alias.programs", 1)
	})
}

// derivedSweep: every operation applied to *derived* operands — 3·x, −x, x+5, 2·x, … — instead of
// plain inputs.  In the sparse builder such operands are terms with a coefficient other than 1
// (no gate is emitted for a scaling), in R1CS they are linear expressions with several terms or
// a constant part: the operation's own coefficient arithmetic has to account for them.  The
// inputs are exposed again after the operation.
func derivedSweep(r *vcore.Run) {
	type job struct {
		op      string
		rot     int
		builder string
	}
	var jobs []job
	for _, op := range sweepOps {
		for rot := 0; rot < 3; rot++ {
			for _, b := range []string{"r1cs", "scs"} {
				jobs = append(jobs, job{op, rot, b})
			}
		}
	}
	vcore.Parallel(len(jobs), 14, func(ji int) {
		j := jobs[ji]
		a := arity(j.op)
		rng := r.Rand(fmt.Sprintf("derived/%s/%d/%s", j.op, j.rot, j.builder))
		// inputs: a variables, then the literals 3, 5, 2
		p := &progs.Program{}
		for i := 0; i < a; i++ {
			p.Inputs = append(p.Inputs, progs.Kind(1+i%2))
		}
		lit := len(p.Inputs)
		p.Inputs = append(p.Inputs, progs.Const, progs.Const, progs.Const)
		p.Lits = make([]*big.Int, len(p.Inputs))
		p.Lits[lit], p.Lits[lit+1], p.Lits[lit+2] = big.NewInt(3), big.NewInt(5), big.NewInt(2)
		reg := len(p.Inputs)
		var args []int
		for i := 0; i < a; i++ {
			switch (i + j.rot) % 4 {
			case 0:
				p.Instrs = append(p.Instrs, progs.Instr{Op: "Mul", Args: []int{lit, i}})
			case 1:
				p.Instrs = append(p.Instrs, progs.Instr{Op: "Neg", Args: []int{i}})
			case 2:
				p.Instrs = append(p.Instrs, progs.Instr{Op: "Add", Args: []int{i, lit + 1}})
			case 3:
				p.Instrs = append(p.Instrs, progs.Instr{Op: "Mul", Args: []int{i, lit + 2}})
			}
			args = append(args, reg)
			reg++
		}
		n := 0
		if j.op == "ToBinary" {
			n = 6
		}
		ins := progs.Instr{Op: j.op, N: n, Args: args}
		if j.op == "EvaluatePlonkExpression" {
			ins.Q = []int{2, -3, 7, 5}
		}
		p.Instrs = append(p.Instrs, ins)
		for k := 0; k < progs.NbResults(ins); k++ {
			p.Exposed = append(p.Exposed, reg+k)
		}
		for i := 0; i < a; i++ {
			p.Exposed = append(p.Exposed, i, len(p.Inputs)+i)
		}
		c, err := progs.Compile(p, nil, tiny, j.builder)
		r.Count("compilations", 1)
		if err != nil {
			r.Count("derived.compile-refused", 1)
			return
		}
		budget := r.Pick(2209, 103823)
		if a > 3 {
			budget = r.Pick(1500, 20000)
		}
		tuples(rng, a, budget, func(t []int) {
			in := make([]*big.Int, len(p.Inputs))
			for i := 0; i < a; i++ {
				in[i] = big.NewInt(int64(t[i]))
			}
			p.FillLits(in, tiny)
			checkOne(r, c, nil, in, "derived")
		})
		r.Count("derived.programs", 1)
	})
}

// repeatSweep: the same operation twice, the second time on operands that are multiples of the
// first ones (all doubled, or all negated) with the same literal constant where the operation
// takes one.  The sparse builder answers a repeated addition / multiplication from a cache of
// recorded gates (scaled by the coefficient ratio) instead of emitting a new gate; the second
// result must still be the documented function of its own operands.
func repeatSweep(r *vcore.Run) {
	type job struct {
		op      string
		lastLit bool // the last operand is the literal 5 in both applications
		neg     bool // second application on negated (instead of doubled) operands
		builder string
	}
	var jobs []job
	for _, op := range sweepOps {
		if arity(op) > 3 || progs.NbResults(progs.Instr{Op: op, N: 6}) == 0 {
			continue
		}
		for _, ll := range []bool{false, true} {
			if ll && arity(op) < 2 {
				continue
			}
			for _, ng := range []bool{false, true} {
				for _, b := range []string{"r1cs", "scs"} {
					jobs = append(jobs, job{op, ll, ng, b})
				}
			}
		}
	}
	vcore.Parallel(len(jobs), 14, func(ji int) {
		j := jobs[ji]
		a := arity(j.op)
		nv := a
		if j.lastLit {
			nv = a - 1
		}
		rng := r.Rand(fmt.Sprintf("repeat/%s/%v/%v/%s", j.op, j.lastLit, j.neg, j.builder))
		p := &progs.Program{}
		for i := 0; i < nv; i++ {
			p.Inputs = append(p.Inputs, progs.Kind(1+i%2))
		}
		lit := len(p.Inputs)
		p.Inputs = append(p.Inputs, progs.Const, progs.Const)
		p.Lits = make([]*big.Int, len(p.Inputs))
		p.Lits[lit], p.Lits[lit+1] = big.NewInt(5), big.NewInt(2)
		reg := len(p.Inputs)
		n := 0
		if j.op == "ToBinary" {
			n = 6
		}
		mk := func(args []int) progs.Instr {
			ins := progs.Instr{Op: j.op, N: n, Args: args}
			if j.op == "EvaluatePlonkExpression" {
				ins.Q = []int{2, -3, 7, 5}
			}
			return ins
		}
		var first []int
		for i := 0; i < nv; i++ {
			first = append(first, i)
		}
		if j.lastLit {
			first = append(first, lit)
		}
		ins1 := mk(first)
		p.Instrs = append(p.Instrs, ins1)
		for k := 0; k < progs.NbResults(ins1); k++ {
			p.Exposed = append(p.Exposed, reg+k)
		}
		reg += progs.NbResults(ins1)
		var second []int
		for i := 0; i < nv; i++ {
			if j.neg {
				p.Instrs = append(p.Instrs, progs.Instr{Op: "Neg", Args: []int{i}})
			} else {
				p.Instrs = append(p.Instrs, progs.Instr{Op: "Mul", Args: []int{lit + 1, i}})
			}
			second = append(second, reg)
			reg++
		}
		if j.lastLit {
			second = append(second, lit)
		}
		ins2 := mk(second)
		p.Instrs = append(p.Instrs, ins2)
		for k := 0; k < progs.NbResults(ins2); k++ {
			p.Exposed = append(p.Exposed, reg+k)
		}
		for i := 0; i < nv; i++ {
			p.Exposed = append(p.Exposed, i)
		}
		c, err := progs.Compile(p, nil, tiny, j.builder)
		r.Count("compilations", 1)
		if err != nil {
			r.Count("repeat.compile-refused", 1)
			return
		}
		tuples(rng, nv, r.Pick(2209, 103823), func(t []int) {
			in := make([]*big.Int, len(p.Inputs))
			for i := 0; i < nv; i++ {
				in[i] = big.NewInt(int64(t[i]))
			}
			p.FillLits(in, tiny)
			checkOne(r, c, nil, in, "repeat")
		})
		r.Count("repeat.programs", 1)
	})
}

// byConstZero: the builders' refusal of a division whose divisor they folded to the constant 0.
func byConstZero(err error) bool { return err != nil && strings.Contains(err.Error(), "by constant(0)") }

// uniform draws a uniform non-zero field element.
func uniform(rng *rand.Rand, mod *big.Int) *big.Int {
	v := new(big.Int)
	for i := 0; i < (mod.BitLen()+63)/64+1; i++ {
		v.Lsh(v, 64).Or(v, new(big.Int).SetUint64(rng.Uint64()))
	}
	v.Mod(v, new(big.Int).Sub(mod, big.NewInt(1)))
	return v.Add(v, big.NewInt(1))
}
