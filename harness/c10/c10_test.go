//go:build verif

// C10 — Solving and proving are independent of scheduling and of concurrent use.
// History monitor at the client boundary: every call of the concurrent phase is
// compared with the same call executed alone; the race detector watches the
// shared objects; PRNG delays are injected at the solver's Yield points; each
// scenario runs in a child process so that crashes and deadlocks are observed.
package c10

import (
	"bytes"
	"crypto/sha256"
	"fmt"
	"io"
	"math/rand/v2"
	"os"
	"path/filepath"
	"regexp"
	"runtime"
	"sort"
	"strconv"
	"strings"
	"sync"
	"sync/atomic"
	"testing"
	"time"

	"github.com/consensys/gnark-crypto/ecc"
	"github.com/consensys/gnark/backend"
	"github.com/consensys/gnark/backend/groth16"
	"github.com/consensys/gnark/backend/plonk"
	"github.com/consensys/gnark/backend/witness"
	"github.com/consensys/gnark/constraint"
	"github.com/consensys/gnark/constraint/solver"
	"github.com/consensys/gnark/frontend"
	"github.com/consensys/gnark/frontend/cs/r1cs"
	"github.com/consensys/gnark/frontend/cs/scs"
	"github.com/consensys/gnark/test/unsafekzg"

	"github.com/consensys/gnark/verifharness/internal/adversary"
	"github.com/consensys/gnark/verifharness/internal/circuits"
	"github.com/consensys/gnark/verifharness/internal/hooks"
	_ "github.com/consensys/gnark/verifharness/internal/hooks/all"
	"github.com/consensys/gnark/verifharness/internal/scen"
	"github.com/consensys/gnark/verifharness/internal/vcore"
)

var curvesQuick = []ecc.ID{ecc.BN254}
var curvesThorough = []ecc.ID{ecc.BN254, ecc.BLS12_377, ecc.BW6_761}

func TestC10(t *testing.T) {
	if vcore.IsChild() {
		t.Skip("child mode")
	}
	r := vcore.Start(t, "C10")
	cvs := curvesQuick
	if r.Thorough() {
		cvs = curvesThorough
	}
	scs := scen.Scenarios()
	type job struct {
		curve ecc.ID
		sc    int
		rep   int
	}
	var jobs []job
	reps := r.Pick(1, 4)
	for _, c := range cvs {
		for i := range scs {
			for rep := 0; rep < reps; rep++ {
				jobs = append(jobs, job{c, i, rep})
			}
		}
	}
	raceDir := filepath.Join(vcore.Root(), "work", "C10-children", "race")
	os.RemoveAll(raceDir)
	os.MkdirAll(raceDir, 0o755)
	vcore.Parallel(len(jobs), 3, func(i int) {
		j := jobs[i]
		tag := fmt.Sprintf("%s-sc%d-rep%d", j.curve.String(), j.sc, j.rep)
		env := []string{
			"VERIF_C10_CURVE=" + j.curve.String(), "VERIF_C10_SCENARIO=" + strconv.Itoa(j.sc), "VERIF_C10_REP=" + strconv.Itoa(j.rep),
			"GORACE=halt_on_error=0 log_path=" + filepath.Join(raceDir, tag),
		}
		res := r.RunChild("TestC10Child", tag, env, 15*time.Minute)
		r.Eval("child|"+tag, true)
		if res.OK || (res.Merged && strings.Contains(res.Output, "race detected during execution of test")) {
			// a child that ran to completion; race reports are collected from the race logs below
			r.Count("children.completed", 1)
			return
		}
		rep := map[string]any{"curve": j.curve.String(), "scenario": scs[j.sc].Name, "output": res.Output, "log": res.LogPath, "last_case": res.LastCase}
		if res.TimedOut {
			if cls := deadlockEvidence(res.LogPath); cls != "" {
				r.Violation("deadlock/"+sigScenario(scs[j.sc].Name)+"/"+cls, "watchdog fired and the goroutine dump shows callers blocked inside gnark with nothing runnable there", rep)
			} else {
				r.Inconclusive("child-watchdog-without-deadlock-evidence:" + tag)
			}
			return
		}
		r.Count("children.CRASHED", 1)
		r.Violation("process-crash/"+sigScenario(scs[j.sc].Name)+"/"+crashClass(res.Output), "child process died during concurrent Solve/Prove: "+firstLine(res.LastCase), rep)
	})
	// race reports written by the children
	races := collectRaces(raceDir)
	r.Set("race_reports_total", races.total)
	r.Set("race_reports_distinct", len(races.byKey))
	for key, ex := range races.byKey {
		if !hasGnarkFrame(ex) {
			r.Count("race-reports.outside-gnark", 1)
			t.Errorf("BROKEN-CHECK property=C10: data race report without gnark frames (harness race?): %s", key)
			continue
		}
		r.Count("race-reports.in-gnark", 1)
		r.Violation("data-race/"+key, "the race detector reported a data race in gnark frames", map[string]any{"report": ex})
	}
	r.Require("children.completed", 1)
	r.Require("calls.concurrent", 50)
	r.Require("calls.overlapping-pairs", 20)
	r.Require("yield.events", 50)
	r.Finish("exploration",
		"per curve and scenario (lookup table with witness-dependent entries + range checks; wide levels + hints taking the solver's parallel branch; arithmetic with two commitments): every witness (valid and invalid) is first run alone (Solve on r1cs and scs with task counts 1..512, Groth16 and PLONK Prove+Verify), then N in {2,4,8} goroutines issue the same calls concurrently on the shared system / keys / one shared WithSolverOptions value built from a slice with spare capacity, with PRNG Gosched/sleeps injected at the solver's Yield points, histories valid-after-invalid and repeated solves, while other circuits are compiled in parallel; built with -race. Oracle: each concurrent call's outcome (error class or SHA-256 of the solution / verification result of the proof) equals the outcome of the same call alone; zero race reports in gnark frames; no crash; no deadlock. distinct = (scenario, op, witness, mode)",
		[]string{"hash.Hash option values are not shared between concurrent calls (caller-owned mutable objects)", "interleavings are sampled by scheduling noise and injected delays, not enumerated", "watchdog expiry without deadlock evidence is inconclusive"})
}

func sigScenario(n string) string {
	if i := strings.IndexByte(n, '{'); i >= 0 {
		return n[:i]
	}
	return n
}

func firstLine(s string) string {
	if i := strings.IndexByte(s, '\n'); i >= 0 {
		return s[:i]
	}
	return s
}

func crashClass(out string) string {
	switch {
	case strings.Contains(out, "concurrent map"):
		return "concurrent-map-access"
	case strings.Contains(out, "index out of range"):
		return "index-out-of-range"
	case strings.Contains(out, "nil pointer") || strings.Contains(out, "SIGSEGV"):
		return "nil-pointer-or-segv"
	case strings.Contains(out, "all goroutines are asleep"):
		return "all-goroutines-asleep"
	case strings.Contains(out, "fatal error"):
		return "fatal-error"
	case strings.Contains(out, "panic:"):
		return "panic"
	}
	return "died"
}

// deadlockEvidence parses a SIGQUIT goroutine dump: callers blocked on a mutex /
// channel inside gnark frames and nothing running inside gnark.
func deadlockEvidence(logPath string) string {
	b, err := os.ReadFile(logPath)
	if err != nil {
		return ""
	}
	blocks := strings.Split(string(b), "\n\ngoroutine ")
	blocked, running := 0, 0
	for _, blk := range blocks {
		if !hasGnarkFrame(blk) {
			continue
		}
		head := firstLine(blk)
		switch {
		case strings.Contains(head, "sync.Mutex.Lock") || strings.Contains(head, "semacquire") || strings.Contains(head, "chan receive") || strings.Contains(head, "chan send") || strings.Contains(head, "sync.WaitGroup.Wait") || strings.Contains(head, "select"):
			blocked++
		case strings.Contains(head, "running") || strings.Contains(head, "runnable"):
			running++
		}
	}
	if blocked > 0 && running == 0 {
		return "blocked-in-gnark"
	}
	return ""
}

type raceSet struct {
	total int
	byKey map[string]string
}

var reGeneric = regexp.MustCompile(`\[[^\]]*\]`)

// collectRaces reads the race logs, de-duplicates reports by the pair of top
// gnark functions of the two accesses.
func collectRaces(dir string) raceSet {
	rs := raceSet{byKey: map[string]string{}}
	files, _ := filepath.Glob(filepath.Join(dir, "*"))
	for _, f := range files {
		b, err := os.ReadFile(f)
		if err != nil {
			continue
		}
		for _, rep := range strings.Split(string(b), "==================") {
			if !strings.Contains(rep, "WARNING: DATA RACE") {
				continue
			}
			rs.total++
			var fns []string
			for _, part := range strings.Split(rep, "\n\n") {
				if !(strings.HasPrefix(strings.TrimSpace(part), "Write at") || strings.HasPrefix(strings.TrimSpace(part), "Read at") || strings.HasPrefix(strings.TrimSpace(part), "Previous")) {
					continue
				}
				top := "?"
				lines := strings.Split(part, "\n")
				for i, l := range lines {
					if strings.HasPrefix(l, "  ") && !strings.HasPrefix(l, "   ") && i+1 < len(lines) && hasGnarkFrame(l) {
						top = strings.TrimSuffix(strings.TrimSpace(l), "()")
						top = reGeneric.ReplaceAllString(top, "")
						top = strings.TrimPrefix(top, "github.com/consensys/gnark/")
						break
					}
				}
				fns = append(fns, top)
			}
			sort.Strings(fns)
			key := strings.Join(fns, "<->")
			if _, ok := rs.byKey[key]; !ok {
				if len(rep) > 5000 {
					rep = rep[:5000]
				}
				rs.byKey[key] = rep
			}
		}
	}
	return rs
}

// ------------------------------------------------------------------ child

type outcome struct {
	class string // "ok:<hash>" | "err:<class>" | "proof-verifies" | ...
}

var reNum = regexp.MustCompile(`[0-9]+`)

func errClass(err error) string {
	s := firstLine(err.Error())
	s = reNum.ReplaceAllString(s, "#")
	if len(s) > 80 {
		s = s[:80]
	}
	return s
}

type call struct {
	op    string // solve-r1cs, solve-scs, groth16, plonk
	wi    int
	tasks int
}

func (c call) String() string { return fmt.Sprintf("%s/w%d/tasks%d", c.op, c.wi, c.tasks) }

type env struct {
	r       *vcore.Run
	curve   ecc.ID
	r1      constraint.ConstraintSystem
	sp      constraint.ConstraintSystem
	gpk     groth16.ProvingKey
	gvk     groth16.VerifyingKey
	ppk     plonk.ProvingKey
	pvk     plonk.VerifyingKey
	full    []witness.Witness
	pub     []witness.Witness
	wits    []scen.Wit
	shared  backend.ProverOption // one option value shared by all provers
	sopts   []solver.Option
	seq     atomic.Int64
	yieldN  atomic.Int64
	ilog    sync.Mutex
	ievents []string
	gidCall sync.Map
}

func gid() int64 {
	var buf [40]byte
	n := runtime.Stack(buf[:], false)
	f := strings.Fields(string(buf[:n]))
	if len(f) > 1 {
		id, _ := strconv.ParseInt(f[1], 10, 64)
		return id
	}
	return 0
}

func (e *env) exec(c call) (out string) {
	defer func() {
		if p := recover(); p != nil {
			out = "PANIC:" + errClass(fmt.Errorf("%v", p))
		}
	}()
	switch c.op {
	case "solve-r1cs", "solve-scs":
		sys := e.r1
		if c.op == "solve-scs" {
			sys = e.sp
		}
		// commitments are replaced by a hash of the committed values: the placeholder hint
		// draws a fresh random value per call, which would make solutions incomparable
		opts := []solver.Option{solver.WithNbTasks(c.tasks), adversary.CommitmentAsHash(), adversary.FixedMask()}
		res, err := sys.Solve(e.full[c.wi], opts...)
		if err != nil {
			return "err:" + errClass(err)
		}
		var b bytes.Buffer
		res.(io.WriterTo).WriteTo(&b)
		return fmt.Sprintf("ok:%x", sha256.Sum256(b.Bytes()))
	case "groth16":
		p, err := groth16.Prove(e.r1, e.gpk, e.full[c.wi], e.shared)
		if err != nil {
			return "err:" + errClass(err)
		}
		if err := groth16.Verify(p, e.gvk, e.pub[c.wi]); err != nil {
			return "proof-REJECTED:" + errClass(err)
		}
		return "proof-verifies"
	case "plonk":
		p, err := plonk.Prove(e.sp, e.ppk, e.full[c.wi], e.shared)
		if err != nil {
			return "err:" + errClass(err)
		}
		if err := plonk.Verify(p, e.pvk, e.pub[c.wi]); err != nil {
			return "proof-REJECTED:" + errClass(err)
		}
		return "proof-verifies"
	}
	return "?"
}

func TestC10Child(t *testing.T) {
	if !vcore.IsChild() {
		t.Skip("parent mode")
	}
	r := vcore.Start(t, "C10")
	var curve ecc.ID
	for _, c := range curvesThorough {
		if c.String() == os.Getenv("VERIF_C10_CURVE") {
			curve = c
		}
	}
	si, _ := strconv.Atoi(os.Getenv("VERIF_C10_SCENARIO"))
	rep, _ := strconv.Atoi(os.Getenv("VERIF_C10_REP"))
	sc := scen.Scenarios()[si]
	rng := r.Rand(fmt.Sprintf("%s/%d/%d", curve, si, rep))
	field := curve.ScalarField()
	e := &env{r: r, curve: curve}
	var err error
	if e.r1, err = frontend.Compile(field, r1cs.NewBuilder, sc.Circuit()); err != nil {
		t.Fatal(err)
	}
	if e.sp, err = frontend.Compile(field, scs.NewBuilder, sc.Circuit()); err != nil {
		t.Fatal(err)
	}
	if e.gpk, e.gvk, err = groth16.Setup(e.r1); err != nil {
		t.Fatal(err)
	}
	if !sc.Heavy { // heavy scenarios: no PLONK prover calls (a 2^16-domain prover under the race detector costs a minute per call)
		srs, srsL, err := unsafekzg.NewSRS(e.sp)
		if err != nil {
			t.Fatal(err)
		}
		if e.ppk, e.pvk, err = plonk.Setup(e.sp, srs, srsL); err != nil {
			t.Fatal(err)
		}
	}
	nW := r.Pick(6, 12)
	if sc.Heavy {
		nW = r.Pick(3, 6)
	}
	e.wits = sc.Witnesses(rng, field, nW)
	for _, w := range e.wits {
		fw, err := frontend.NewWitness(w.Assign, field)
		if err != nil {
			t.Fatal(err)
		}
		pw, _ := fw.Public()
		e.full = append(e.full, fw)
		e.pub = append(e.pub, pw)
	}
	// one option value, built the ordinary way from a slice with spare capacity
	base := make([]solver.Option, 0, 8)
	base = append(base, solver.WithNbTasks(3))
	e.shared = backend.WithSolverOptions(base...)

	// the calls
	var calls []call
	taskCounts := []int{1, 2, 3, 7, 16, 64, 512}
	for wi := range e.wits {
		calls = append(calls, call{"solve-r1cs", wi, taskCounts[wi%len(taskCounts)]}, call{"solve-scs", wi, taskCounts[(wi+3)%len(taskCounts)]})
		if !sc.Heavy {
			calls = append(calls, call{"groth16", wi, 0}, call{"plonk", wi, 0})
		} else if wi == 0 {
			calls = append(calls, call{"groth16", wi, 0})
		}
	}

	// ---- phase 1: every call alone (twice: repeated solves leave no state behind)
	ref := map[string]string{}
	for _, c := range calls {
		vcore.ChildCaseStart("sequential "+sc.Name+" "+c.String(), nil)
		o1 := e.exec(c)
		o2 := e.exec(c)
		r.Eval(sc.Name+"|seq|"+c.String(), true)
		r.Count("calls.sequential", 2)
		valid := e.wits[c.wi].Valid
		if o1 != o2 {
			r.Violation("repeated-call-differs/"+c.op, fmt.Sprintf("the same call twice in a row gave %q then %q", o1, o2), map[string]any{"scenario": sc.Name, "call": c.String()})
		}
		okish := strings.HasPrefix(o1, "ok:") || o1 == "proof-verifies"
		if valid != okish {
			// completeness / soundness of a single call is C03/C06's business; here it makes the reference unusable
			r.Inconclusive("reference-outcome-unexpected:" + c.op + ":" + o1)
		}
		ref[c.String()] = o1
		r.SampleClass("reference/"+c.op, map[string]any{"scenario": sc.Name, "call": c.String(), "witness": e.wits[c.wi].Name, "outcome": o1})
	}

	// ---- phase 2: concurrent, with delays at the Yield points
	var yrng atomic.Uint64
	yrng.Store(uint64(r.Seed)*7919 + uint64(rep))
	hooks.OnYield(func(field, point string) {
		e.yieldN.Add(1)
		x := yrng.Add(0x9e3779b97f4a7c15)
		x ^= x >> 29
		if point == "solve.pre-reset" || point == "solve.post-reset" {
			if v, ok := e.gidCall.Load(gid()); ok {
				e.ilog.Lock()
				e.ievents = append(e.ievents, fmt.Sprintf("%d:%s", v.(int), point))
				e.ilog.Unlock()
			}
		}
		if sc.Heavy && point != "solve.pre-reset" && point != "solve.post-reset" && (x>>8)%64 != 0 {
			// deep systems (a GKR verifier has ~10^4 solver levels): delays at one level boundary
			// in 64, or a solve takes seconds
			return
		}
		switch x % 8 {
		case 0, 1:
			runtime.Gosched()
		case 2:
			time.Sleep(time.Duration(x>>40%200) * time.Microsecond)
		case 3:
			if point != "solve.task" {
				time.Sleep(time.Duration(x>>40%1500) * time.Microsecond)
			}
		}
	})
	defer hooks.OnYield(nil)

	interleavings := map[string]struct{}{}
	for round, N := range []int{2, 4, 8} {
		// unrelated compilations in parallel
		stop := make(chan struct{})
		var cwg sync.WaitGroup
		cwg.Add(1)
		go func() {
			defer cwg.Done()
			for i := 0; ; i++ {
				select {
				case <-stop:
					return
				default:
				}
				s := circuits.RandSpec(rand.New(rand.NewPCG(uint64(i), 7)), 2)
				frontend.Compile(field, r1cs.NewBuilder, s.New())
				frontend.Compile(field, scs.NewBuilder, s.New())
			}
		}()
		order := rng.Perm(len(calls))
		type rec struct {
			c          call
			start, end int64
			out        string
		}
		recs := make([]rec, len(order))
		e.ilog.Lock()
		e.ievents = e.ievents[:0]
		e.ilog.Unlock()
		var wg sync.WaitGroup
		ch := make(chan int)
		for g := 0; g < N; g++ {
			wg.Add(1)
			go func() {
				defer wg.Done()
				me := gid()
				for k := range ch {
					c := calls[order[k]]
					e.gidCall.Store(me, k)
					recs[k].c = c
					recs[k].start = e.seq.Add(1)
					recs[k].out = e.exec(c)
					recs[k].end = e.seq.Add(1)
				}
			}()
		}
		vcore.ChildCaseStart(fmt.Sprintf("concurrent %s round %d N=%d", sc.Name, round, N), nil)
		for k := range order {
			ch <- k
		}
		close(ch)
		wg.Wait()
		close(stop)
		cwg.Wait()
		// verdicts
		for _, rc := range recs {
			r.Eval(fmt.Sprintf("%s|conc%d|%s", sc.Name, N, rc.c), true)
			r.Count("calls.concurrent", 1)
			want := ref[rc.c.String()]
			if rc.out != want {
				kind := "outcome-differs-from-sequential"
				if strings.HasPrefix(rc.out, "PANIC:") {
					kind = "panic-under-concurrency"
				}
				r.Violation(kind+"/"+sigScenario(sc.Name)+"/"+rc.c.op,
					fmt.Sprintf("%s alone gave %q, among %d concurrent callers it gave %q", rc.c, want, N, rc.out),
					map[string]any{"scenario": sc.Name, "curve": curve.String(), "call": rc.c.String(), "witness": e.wits[rc.c.wi].Name, "alone": want, "concurrent": rc.out, "goroutines": N})
			} else {
				r.Count("calls.concurrent.same-as-sequential", 1)
			}
		}
		ov := 0
		for i := range recs {
			for j := i + 1; j < len(recs); j++ {
				if recs[i].start < recs[j].end && recs[j].start < recs[i].end {
					ov++
				}
			}
		}
		r.Count("calls.overlapping-pairs", ov)
		e.ilog.Lock()
		interleavings[fmt.Sprintf("%x", sha256.Sum256([]byte(strings.Join(e.ievents, ","))))] = struct{}{}
		e.ilog.Unlock()
	}
	// ---- phase 2b: solve storm — many short overlapping solves of the shared systems (the
	// window in which two solvers are inside the same stateful instruction is a few microseconds
	// of a call; provers spend most of their time elsewhere)
	{
		var solves []call
		for _, c := range calls {
			if strings.HasPrefix(c.op, "solve-") {
				solves = append(solves, c)
			}
		}
		const G = 8
		K := r.Pick(40, 200)
		if sc.Heavy {
			K = r.Pick(10, 40)
		}
		var wg sync.WaitGroup
		var mism atomic.Int64
		type bad struct {
			c         call
			want, got string
		}
		badCh := make(chan bad, G*K)
		vcore.ChildCaseStart("solve storm "+sc.Name, nil)
		for g := 0; g < G; g++ {
			wg.Add(1)
			go func(g int) {
				defer wg.Done()
				for k := 0; k < K; k++ {
					c := solves[(g*7+k*3)%len(solves)]
					c.tasks = []int{1, 2, 4, 16}[(g+k)%4]
					out := e.exec(c)
					// the reference was taken with another task count: solutions do not depend on it
					want := ref[call{c.op, c.wi, refTasks(calls, c)}.String()]
					if out != want {
						mism.Add(1)
						badCh <- bad{c, want, out}
					}
				}
			}(g)
		}
		wg.Wait()
		close(badCh)
		r.Count("calls.concurrent", G*K)
		r.Count("calls.storm", G*K)
		r.Count("calls.concurrent.same-as-sequential", G*K-int(mism.Load()))
		for b := range badCh {
			r.Eval(fmt.Sprintf("%s|storm|%s", sc.Name, b.c), true)
			kind := "outcome-differs-from-sequential"
			if strings.HasPrefix(b.got, "PANIC:") {
				kind = "panic-under-concurrency"
			}
			r.Violation(kind+"/"+sigScenario(sc.Name)+"/"+b.c.op, fmt.Sprintf("%s alone gave %q, in a storm of 8 concurrent solvers it gave %q", b.c, b.want, b.got),
				map[string]any{"scenario": sc.Name, "curve": curve.String(), "call": b.c.String(), "witness": e.wits[b.c.wi].Name, "alone": b.want, "concurrent": b.got})
		}
	}
	r.Count("distinct-interleavings(order of reset events across calls)", len(interleavings))
	r.Count("yield.events", int(e.yieldN.Load()))

	// ---- phase 3: history — everything once more alone after the concurrent phase
	hooks.OnYield(nil)
	for _, c := range calls {
		o := e.exec(c)
		r.Eval(sc.Name+"|after|"+c.String(), true)
		r.Count("calls.after-concurrency", 1)
		if o != ref[c.String()] {
			r.Violation("state-left-behind/"+sigScenario(sc.Name)+"/"+c.op, fmt.Sprintf("%s gave %q before and %q after the concurrent phase", c, ref[c.String()], o),
				map[string]any{"scenario": sc.Name, "call": c.String()})
		}
	}
	r.ExportPartial()
}

// hasGnarkFrame reports whether a stack / race report contains a frame of gnark itself
// (by function name: the tree under test may live anywhere on disk).
func hasGnarkFrame(s string) bool {
	for _, l := range strings.Split(s, "\n") {
		if strings.Contains(l, "github.com/consensys/gnark/") && !strings.Contains(l, "verifharness") {
			return true
		}
	}
	return false
}

// refTasks returns the task count with which the reference outcome of (op, witness) was taken.
func refTasks(calls []call, c call) int {
	for _, k := range calls {
		if k.op == c.op && k.wi == c.wi {
			return k.tasks
		}
	}
	return c.tasks
}
