//go:build verif

// C18 — MPC setup accepts only valid contribution chains and yields working keys.
//
// Adversarial-execution monitor.  The harness plays every participant of a
// Groth16 ceremony (contributors and coordinator all work from *bytes*) with the
// real gnark code, then plays a dishonest participant / transcript editor:
// single-element replacements in a serialized contribution (complete
// enumeration in the thorough tier), challenge edits, and chain-level attacks
// (reorder, splice, fork, drop, duplicate, foreign commons / circuit).  The
// oracle is the documented behaviour: honest chains verify and yield keys that
// prove and verify; every attack is answered by an error.
package c18

import (
	"bytes"
	"crypto/sha256"
	"encoding/hex"
	"fmt"
	"math/big"
	"math/rand/v2"
	"os"
	"sort"
	"strings"
	"sync"
	"testing"
	"time"

	"github.com/consensys/gnark/backend/groth16"
	"github.com/consensys/gnark/constraint"
	"github.com/consensys/gnark/frontend"
	"github.com/consensys/gnark/frontend/cs/r1cs"

	"github.com/consensys/gnark/verifharness/c18/impl/api"
	"github.com/consensys/gnark/verifharness/internal/circuits"
	"github.com/consensys/gnark/verifharness/internal/vcore"
)

const chainLen = 4

var (
	beacon1  = []byte("C18 phase-1 beacon")
	beacon1b = []byte("C18 phase-1 beacon (changed)")
	beacon2  = []byte("C18 phase-2 beacon")
	beacon2b = []byte("C18 phase-2 beacon (changed)")
)

// element replacement classes
var editClasses = []string{"neighbour", "generator", "double", "negation", "identity", "parallel-chain", "stale(previous-contribution)", outOfSubgroup}

// outOfSubgroup: P replaced by P+T, T≠0 of order dividing the cofactor: on the curve, outside the
// prime-order subgroup.  Must be rejected at deserialization or by Verify.  (No such T in G1 of
// BN254: cofactor 1.)
const outOfSubgroup = "out-of-subgroup(+cofactor-torsion)"

// effort is the size of the adversarial workload of one ceremony.
type effort struct {
	perClass  int  // element edits per (vector, class); <= 0: the thorough rule (every element)
	nFull     int  // element edits also offered inside the whole transcript
	nBits     int  // challenge bit flips
	allChains bool // every chain-level case, or one PRNG-chosen case per class
	twoKs     bool // consistent edits on contribution 1 and on a later one, or on one only
	workers   int
}

func (e effort) heavier(o effort) bool {
	if (e.perClass <= 0) != (o.perClass <= 0) {
		return e.perClass <= 0
	}
	return e.perClass > o.perClass
}

func hx(b []byte) string { return hex.EncodeToString(b) }

func hxs(bs [][]byte) []string {
	o := make([]string, len(bs))
	for i := range bs {
		o[i] = hx(bs[i])
	}
	return o
}

// kind strips digits so that violation classes are stable.
func kind(name string) string {
	out := make([]byte, 0, len(name))
	for i := 0; i < len(name); i++ {
		if name[i] >= '0' && name[i] <= '9' {
			if i > 0 && name[i-1] == 'G' { // G1 / G2 are group names, not indices
				out = append(out, name[i])
				continue
			}
			if len(out) > 0 && out[len(out)-1] == '#' {
				continue
			}
			out = append(out, '#')
			continue
		}
		out = append(out, name[i])
	}
	return string(out)
}

// slots bounds the number of gnark operations (verifications, contributions) in flight: the
// machine is shared and the multi-exponentiations inside fan out on their own.
var slots = make(chan struct{}, 8)

// busy accumulates the time spent inside gnark per kind of case (reporting only; never used to
// select cases).
var (
	busyMu sync.Mutex
	busy   = map[string]float64{}
)

func spent(section string, t0 time.Time) {
	d := time.Since(t0).Seconds()
	busyMu.Lock()
	busy[section] += d
	busyMu.Unlock()
}

// safe runs f converting a panic into a string.
func safe(f func() error) (err error, pan string) { return safeS("", f) }

// safeS is safe with the time spent in f accounted to a section.
func safeS(section string, f func() error) (err error, pan string) {
	slots <- struct{}{}
	defer func() { <-slots }()
	if section != "" {
		defer spent(section, time.Now())
	}
	p, stack := vcore.Catch(func() { err = f() })
	if p != nil {
		return nil, fmt.Sprintf("%v\n%s", p, stack)
	}
	return err, ""
}

// phase abstracts over phase 1 / phase 2 of one ceremony.
type phase struct {
	r     *vcore.Run
	ops   *api.Ops
	ph    string // "p1" | "p2"
	label string // curve/N=.. or curve/circuit
	rng   *rand.Rand
	desc  map[string]any // replay context (curve, N, circuit)

	init       []byte
	A, B       [][]byte // two honest chains from the same initial object
	layouts    []*api.Layout
	contribute func([]byte) ([]byte, error)
	step       func(prev []byte) (api.Step, error)
	layout     func([]byte) (*api.Layout, error)
	full       func(chain [][]byte) error // VerifyPhase1 / VerifyPhase2 with the ceremony's own arguments
}

func (p *phase) prevOf(chain [][]byte, k int) []byte { // k is 1-based
	if k == 1 {
		return p.init
	}
	return chain[k-2]
}

// build makes the two honest chains; every contributor starts from bytes.
func (p *phase) build() bool {
	defer spent(p.ph+"/honest-contributions", time.Now())
	for _, dst := range []*[][]byte{&p.A, &p.B} {
		cur := p.init
		for i := 0; i < chainLen; i++ {
			var next []byte
			err, pan := safe(func() (e error) { next, e = p.contribute(cur); return })
			if pan != "" || err != nil {
				p.r.Violation("honest-contribute-failed/"+p.ph, fmt.Sprintf("Contribute on an honest previous contribution failed: %v %s", err, pan),
					p.replay(map[string]any{"previous": hx(cur)}))
				return false
			}
			*dst = append(*dst, next)
			cur = next
		}
	}
	p.r.Count(p.ph+".honest-contributions", 2*chainLen)
	for k := 1; k <= chainLen; k++ {
		l, err := p.layout(p.A[k-1])
		if err != nil {
			p.r.T.Errorf("BROKEN-CHECK property=C18: %s layout of honest contribution: %v", p.label, err)
			return false
		}
		p.layouts = append(p.layouts, l)
		// independent oracle for the chaining: Challenge = SHA-256 of the previous contribution's serialization
		p.r.Eval(fmt.Sprintf("%s|%s|challenge-chaining|%d", p.label, p.ph, k), true)
		want := sha256.Sum256(p.prevOf(p.A, k))
		if got := api.Challenge(p.A[k-1], l); !bytes.Equal(got, want[:]) {
			p.r.Violation("challenge-not-hash-of-previous/"+p.ph, fmt.Sprintf("contribution %d carries challenge %x, SHA-256 of the previous contribution is %x", k, got, want),
				p.replay(map[string]any{"k": k, "chain": hxs(p.A)}))
		} else {
			p.r.Count(p.ph+".challenge-equals-sha256-of-previous", 1)
		}
	}
	return true
}

func (p *phase) replay(m map[string]any) map[string]any {
	o := map[string]any{"phase": p.ph, "label": p.label}
	for k, v := range p.desc {
		o[k] = v
	}
	for k, v := range m {
		o[k] = v
	}
	return o
}

// reject records the outcome of one must-reject case.
// sigOf builds the stable violation class: phase, attack family, and the vector / kind of case
// (no indices, no replacement class: those go into the detail and the replay file).
func sigOf(class, name string) string {
	fam := class
	for _, pre := range []string{"element-in-full-transcript/", "element/"} {
		if strings.HasPrefix(class, pre) {
			fam = strings.TrimSuffix(pre, "/")
			if strings.HasSuffix(class, outOfSubgroup) { // its own class: a different defence (decoder / subgroup test)
				fam += "-out-of-subgroup"
			}
		}
	}
	if strings.HasPrefix(class, "chain/") {
		return fam // the case name (which contributions were swapped …) is detail
	}
	if strings.HasPrefix(name, "k=") {
		if i := strings.IndexByte(name, ' '); i > 0 {
			name = name[i+1:]
		}
	}
	return fam + "/" + kind(name)
}

func (p *phase) reject(class, name string, err error, pan string, rep func() map[string]any) {
	p.r.Eval(p.label+"|"+p.ph+"|"+class+"|"+name, true)
	switch {
	case pan != "":
		p.r.Count(p.ph+".panic", 1)
		m := rep()
		m["panic"] = pan
		p.r.Violation("panic/"+p.ph+"/"+sigOf(class, name), "verifier panicked on "+class+" "+name+": "+pan, p.replay(m))
	case err == nil:
		p.r.Count(p.ph+".ACCEPTED-must-reject", 1)
		p.r.Violation("accepted/"+p.ph+"/"+sigOf(class, name),
			fmt.Sprintf("%s verification accepted a must-reject transcript: %s %s (%s)", p.ph, class, name, p.label), p.replay(rep()))
	default:
		p.r.Count(p.ph+".rejected."+class, 1)
		p.r.Count(p.ph+".reject-reason: "+err.Error(), 1)
		p.r.SampleClass(p.ph+"/"+class, map[string]any{"curve": p.ops.Name, "where": p.label, "case": name, "verifier_said": err.Error()})
	}
}

// positives: every prefix of both honest chains verifies (chains of 0..4 contributions).
// transport: every honest contribution of chain A (and the initial object) decoded from a stream
// that arrives in pieces must be the same object, with the same byte count, as decoded in one piece:
// participants of a real ceremony exchange contributions over sockets and pipes.
func (p *phase) transport() {
	if p.ops.Reencode == nil {
		return
	}
	objs := append([][]byte{p.init}, p.A...)
	for k, b := range objs {
		for pi, pieces := range [][]int{{1}, {3, 1, 7, 2, 5}, {31, 1, 64, 7}, {4096, 13}} {
			var out []byte
			var n int64
			err, pan := safe(func() (e error) { out, n, e = p.ops.Reencode(p.ph, b, pieces); return })
			p.r.Eval(fmt.Sprintf("%s|%s|fragmented-transport|%d|%d", p.label, p.ph, k, pi), true)
			p.r.Count(p.ph+".fragmented-decodes", 1)
			rep := func() map[string]any {
				return p.replay(map[string]any{"object": k, "pieces": fmt.Sprint(pieces), "bytes": hx(b)})
			}
			switch {
			case pan != "" || err != nil:
				p.r.Violation("honest-contribution-undecodable-from-fragmented-stream/"+p.ph, fmt.Sprintf("an honest contribution decodes from one piece but not from a stream delivered in pieces of %v bytes: %v %s", pieces, err, pan), rep())
			case !bytes.Equal(out, b):
				p.r.Violation("honest-contribution-altered-by-fragmented-stream/"+p.ph, fmt.Sprintf("an honest contribution read from a stream delivered in pieces of %v bytes decodes, without error, to a different object (the next participant / the verifier sees another contribution)", pieces), rep())
			case n != int64(len(b)):
				p.r.Violation("fragmented-read-count-wrong/"+p.ph, fmt.Sprintf("ReadFrom reported %d bytes for an encoding of %d bytes (pieces %v)", n, len(b), pieces), rep())
			default:
				p.r.Count(p.ph+".fragmented-decodes.identical", 1)
			}
		}
	}
}

func (p *phase) positives() bool {
	defer spent(p.ph+"/honest-verification", time.Now())
	p.transport()
	ok := true
	for _, ch := range []struct {
		n string
		c [][]byte
	}{{"A", p.A}, {"B", p.B}} {
		for k := 0; k <= chainLen; k++ {
			if ch.n == "B" && k != chainLen {
				continue
			}
			p.r.Eval(fmt.Sprintf("%s|%s|honest-prefix|%s|%d", p.label, p.ph, ch.n, k), true)
			err, pan := safe(func() error { return p.full(ch.c[:k]) })
			if err != nil || pan != "" {
				ok = false
				p.r.Count(p.ph+".honest-chain-REJECTED", 1)
				p.r.Violation("honest-chain-rejected/"+p.ph, fmt.Sprintf("honest chain of %d contributions rejected: %v %s", k, err, pan),
					p.replay(map[string]any{"chain": hxs(ch.c[:k]), "initial": hx(p.init)}))
			} else {
				p.r.Count(fmt.Sprintf("%s.honest-chain-accepted.len=%d", p.ph, k), 1)
				p.r.Count(p.ph+".honest-chain-accepted", 1)
			}
		}
	}
	// and step-wise from bytes
	for k := 1; k <= chainLen; k++ {
		st, err := p.step(p.prevOf(p.A, k))
		if err != nil {
			p.r.Inconclusive("step-decode-honest")
			continue
		}
		var de, ve error
		_, pan := safe(func() error { de, ve = st(p.A[k-1]); return nil })
		if de != nil || ve != nil || pan != "" {
			ok = false
			p.r.Violation("honest-step-rejected/"+p.ph, fmt.Sprintf("Verify of honest contribution %d failed: %v %v %s", k, de, ve, pan),
				p.replay(map[string]any{"previous": hx(p.prevOf(p.A, k)), "next": hx(p.A[k-1])}))
		} else {
			p.r.Count(p.ph+".honest-step-accepted", 1)
		}
	}
	return ok
}

type edit struct {
	slot  api.Slot
	class string
	bytes []byte // replacement point
}

// candidateEdits lists every (slot, class) replacement for contribution k of chain A.
func (p *phase) candidateEdits(k int) (all []edit, trivial int) {
	b := p.A[k-1]
	l := p.layouts[k-1]
	par := p.B[k-1]
	prev := p.prevOf(p.A, k)
	prevL, perr := p.layout(prev)
	for i, s := range l.Slots {
		cur := api.At(b, s)
		for _, class := range editClasses {
			var rep []byte
			switch class {
			case "neighbour": // nearest slot of the same group in layout order (same vector when there is one)
				for d := 1; d < len(l.Slots) && rep == nil; d++ {
					for _, j := range []int{i + d, i - d} {
						if j >= 0 && j < len(l.Slots) && l.Slots[j].Group == s.Group {
							rep = append([]byte{}, api.At(b, l.Slots[j])...)
							break
						}
					}
				}
			case "generator":
				rep = p.ops.Generator(s.Group)
			case "double":
				rep, _ = p.ops.Scale(s.Group, cur, big.NewInt(2))
			case "negation":
				rep, _ = p.ops.Scale(s.Group, cur, big.NewInt(-1))
			case "identity":
				rep, _ = p.ops.Scale(s.Group, cur, big.NewInt(0))
			case outOfSubgroup:
				if np, ok := p.ops.AddTorsion(s.Group, cur); ok {
					rep = np
				}
			case "parallel-chain":
				rep = append([]byte{}, api.At(par, s)...)
			case "stale(previous-contribution)":
				if perr == nil && i < len(prevL.Slots) && prevL.Slots[i].Name == s.Name && prevL.Slots[i].Off == s.Off {
					rep = append([]byte{}, api.At(prev, s)...)
				}
			}
			if rep == nil {
				continue
			}
			if bytes.Equal(rep, cur) {
				trivial++
				p.r.Eval(fmt.Sprintf("%s|%s|element-trivial|%d|%s|%s", p.label, p.ph, k, s.Name, class), false)
				p.r.Count(p.ph+".element-edit.trivial(element-unchanged)", 1)
				continue
			}
			all = append(all, edit{s, class, rep})
		}
	}
	return
}

// elementEdits: single-element replacements in contribution k, verified against its true predecessor.
// perClass <= 0 means complete enumeration; otherwise all proof slots plus perClass PRNG-chosen
// parameter slots per (vector, class) are taken.
func (p *phase) elementEdits(k int, ef effort) {
	perClass, nFull, workers := ef.perClass, ef.nFull, ef.workers
	all, _ := p.candidateEdits(k)
	var chosen []edit
	if perClass <= 0 {
		// thorough: every element under the four replacement classes of the design; the three
		// additional classes on every proof element, every element of small contributions, both
		// ends of every vector and a PRNG quarter of the rest
		core := map[string]bool{"neighbour": true, "generator": true, "double": true, "parallel-chain": true}
		last := map[string]int{}
		for _, e := range all {
			if e.slot.Idx > last[e.slot.Vec] {
				last[e.slot.Vec] = e.slot.Idx
			}
		}
		small := len(p.layouts[k-1].Slots) <= 50
		for _, e := range all {
			if core[e.class] || small || e.slot.Proof || e.slot.Idx <= 1 || e.slot.Idx == last[e.slot.Vec] || p.rng.IntN(4) == 0 {
				chosen = append(chosen, e)
			}
		}
	} else {
		groups := map[string][]edit{}
		var keys []string
		for _, e := range all {
			g := kind(e.slot.Vec) + "|" + e.class
			if _, ok := groups[g]; !ok {
				keys = append(keys, g)
			}
			groups[g] = append(groups[g], e)
		}
		sort.Strings(keys)
		for _, g := range keys {
			es := groups[g]
			if es[0].slot.Proof || len(es) <= perClass {
				chosen = append(chosen, es...)
				continue
			}
			// always the two ends of a vector, the rest by PRNG
			chosen = append(chosen, es[0], es[len(es)-1])
			perm := p.rng.Perm(len(es) - 2)
			for _, j := range perm[:min(perClass-2, len(perm))] {
				chosen = append(chosen, es[1+j])
			}
		}
	}
	prev := p.prevOf(p.A, k)
	st, err := p.step(prev)
	if err != nil {
		p.r.Inconclusive("step-decode-prev")
		return
	}
	base := p.A[k-1]
	p.r.Count(fmt.Sprintf("%s.element-edit.target-contribution=%d", p.ph, k), 1)
	vcore.Parallel(len(chosen), workers, func(i int) {
		e := chosen[i]
		edited := api.Replace(base, e.slot, e.bytes)
		var de, ve error
		_, pan := safeS(p.ph+"/element", func() error { de, ve = st(edited); return nil })
		if de != nil && pan == "" {
			if e.class != outOfSubgroup {
				p.r.Inconclusive("edited-contribution-does-not-decode")
				p.r.Count(p.ph+".element-edit.decode-error", 1)
				return
			}
			// the one class whose replacement is not a subgroup point: the decoder may stop it
			p.r.Count(p.ph+".out-of-subgroup.rejected-at-deserialization", 1)
			ve = fmt.Errorf("rejected at deserialization: %w", de)
		} else if e.class == outOfSubgroup && ve != nil {
			p.r.Count(p.ph+".out-of-subgroup.decoded,rejected-by-Verify", 1)
		}
		part := "parameters"
		if e.slot.Proof {
			part = "update-proof"
		}
		p.r.Count(p.ph+".element-edit."+part, 1)
		p.r.Count(p.ph+".element-edit.vector:"+kind(e.slot.Vec), 1)
		p.reject("element/"+e.class, fmt.Sprintf("k=%d %s", k, e.slot.Name), ve, pan, func() map[string]any {
			return map[string]any{"k": k, "slot": e.slot.Name, "offset": e.slot.Off, "replacement": hx(e.bytes), "original": hx(api.At(base, e.slot)),
				"previous": hx(prev), "edited_contribution": hx(edited)}
		})
	})
	// a sample of the same edits offered to the whole-transcript verifier, the edited contribution in place
	perm := p.rng.Perm(len(chosen))
	for _, i := range perm[:min(nFull, len(perm))] {
		e := chosen[i]
		chain := append([][]byte{}, p.A...)
		chain[k-1] = api.Replace(base, e.slot, e.bytes)
		err, pan := safeS(p.ph+"/element-in-full-transcript", func() error { return p.full(chain) })
		p.reject("element-in-full-transcript/"+e.class, fmt.Sprintf("k=%d %s", k, e.slot.Name), err, pan, func() map[string]any {
			return map[string]any{"k": k, "slot": e.slot.Name, "replacement": hx(e.bytes), "chain": hxs(chain), "initial": hx(p.init)}
		})
	}
}

// consistentEdits: multi-element replacements that keep the parameters internally consistent (so
// that only the link between parameters and update proofs, or between δ/σ-scaled vectors, can catch
// them): whole vectors re-based to another secret, update proofs taken from elsewhere.
func (p *phase) consistentEdits(k int) {
	base := p.A[k-1]
	l := p.layouts[k-1]
	prev := p.prevOf(p.A, k)
	st, err := p.step(prev)
	if err != nil {
		p.r.Inconclusive("step-decode-prev")
		return
	}
	two := big.NewInt(2)
	r := p.ops.ID.ScalarField()
	half := new(big.Int).Add(r, big.NewInt(1))
	half.Rsh(half, 1)                   // 2⁻¹ mod r
	type rule func(s api.Slot) *big.Int // scalar for the slot, nil = untouched
	scaleCase := func(name string, f rule) {
		out := append([]byte{}, base...)
		touched := 0
		for _, s := range l.Slots {
			kf := f(s)
			if kf == nil {
				continue
			}
			np, err := p.ops.Scale(s.Group, api.At(base, s), kf)
			if err != nil {
				p.r.Inconclusive("scale")
				return
			}
			copy(out[s.Off:], np)
			touched++
		}
		if touched == 0 || bytes.Equal(out, base) {
			return
		}
		p.tryStep(st, "consistent/rescaled", fmt.Sprintf("k=%d %s", k, name), prev, out, k)
	}
	copyCase := func(class, name string, donor []byte, pick func(s api.Slot) bool) {
		if donor == nil {
			return
		}
		dl, err := p.layout(donor)
		if err != nil || len(dl.Slots) != len(l.Slots) {
			return
		}
		out := append([]byte{}, base...)
		touched := 0
		for i, s := range l.Slots {
			if pick(s) && dl.Slots[i].Off == s.Off {
				copy(out[s.Off:], api.At(donor, s))
				touched++
			}
		}
		if touched == 0 || bytes.Equal(out, base) {
			return
		}
		p.tryStep(st, class, fmt.Sprintf("k=%d %s", k, name), prev, out, k)
	}
	pow2 := func(i int) *big.Int { return new(big.Int).Lsh(big.NewInt(1), uint(i)) }
	vecIs := func(s api.Slot, names ...string) bool {
		for _, n := range names {
			if s.Vec == n {
				return true
			}
		}
		return false
	}
	var proofs []string
	seen := map[string]bool{}
	for _, s := range l.Slots {
		if s.Proof {
			n := s.Vec[:len(s.Vec)-len(".commitment")]
			if s.Group == 2 {
				n = s.Vec[:len(s.Vec)-len(".pok")]
			}
			if !seen[n] {
				seen[n] = true
				proofs = append(proofs, n)
			}
		}
	}
	if p.ph == "p1" {
		scaleCase("all-vectors-rebased-to-2τ", func(s api.Slot) *big.Int {
			if vecIs(s, "G1.Tau", "G2.Tau", "G1.AlphaTau", "G1.BetaTau") && s.Idx > 0 {
				return pow2(s.Idx)
			}
			return nil
		})
		scaleCase("AlphaTau-rebased-to-2α", func(s api.Slot) *big.Int {
			if vecIs(s, "G1.AlphaTau") {
				return two
			}
			return nil
		})
		scaleCase("BetaTau-and-[β]₂-rebased-to-2β", func(s api.Slot) *big.Int {
			if vecIs(s, "G1.BetaTau", "G2.Beta") {
				return two
			}
			return nil
		})
		scaleCase("BetaTau-rebased-to-2β,[β]₂-kept", func(s api.Slot) *big.Int {
			if vecIs(s, "G1.BetaTau") {
				return two
			}
			return nil
		})
		scaleCase("AlphaTau-and-BetaTau-exchanged-scalars", func(s api.Slot) *big.Int {
			if vecIs(s, "G1.AlphaTau") {
				return big.NewInt(3)
			}
			if vecIs(s, "G1.BetaTau") {
				return big.NewInt(-3)
			}
			return nil
		})
		for _, v := range []string{"G1.Tau", "G2.Tau", "G1.AlphaTau", "G1.BetaTau"} {
			copyCase("consistent/vector-of-parallel-chain", v, p.B[k-1], func(s api.Slot) bool { return s.Vec == v })
			copyCase("consistent/vector-not-updated", v, prev, func(s api.Slot) bool { return s.Vec == v })
		}
	} else {
		scaleCase("all-δ-dependent-elements-rebased-to-2δ", func(s api.Slot) *big.Int {
			if vecIs(s, "G1.Delta", "G2.Delta") {
				return two
			}
			if vecIs(s, "G1.Z", "G1.PKK") {
				return half
			}
			return nil
		})
		scaleCase("Z-and-PKK-rebased-to-2δ,[δ]-kept", func(s api.Slot) *big.Int {
			if vecIs(s, "G1.Z", "G1.PKK") {
				return half
			}
			return nil
		})
		scaleCase("Z-scaled-as-if-multiplied-by-δ", func(s api.Slot) *big.Int {
			if vecIs(s, "G1.Z") {
				return two
			}
			return nil
		})
		for _, v := range []string{"G1.Z", "G1.PKK"} {
			copyCase("consistent/vector-of-parallel-chain", v, p.B[k-1], func(s api.Slot) bool { return s.Vec == v })
			copyCase("consistent/vector-not-updated", v, prev, func(s api.Slot) bool { return s.Vec == v })
		}
		for i := 0; ; i++ {
			ckk, sig := fmt.Sprintf("G1.SigmaCKK[%d]", i), "G2.Sigma"
			found := false
			for _, s := range l.Slots {
				if s.Vec == sig && s.Idx == i {
					found = true
				}
			}
			if !found {
				break
			}
			ii := i
			scaleCase(fmt.Sprintf("SigmaCKK[%d]-and-Sigma[%d]-rebased-to-2σ", i, i), func(s api.Slot) *big.Int {
				if s.Vec == ckk || (s.Vec == sig && s.Idx == ii) {
					return two
				}
				return nil
			})
			copyCase("consistent/vector-of-parallel-chain", ckk, p.B[k-1], func(s api.Slot) bool { return s.Vec == ckk })
			copyCase("consistent/vector-not-updated", ckk, prev, func(s api.Slot) bool { return s.Vec == ckk })
		}
	}
	// a whole update proof (commitment and PoK) from elsewhere: the parallel chain's contribution k
	// (for k=1 a valid proof of knowledge under the very same challenge), the previous contribution's
	for _, pr := range proofs {
		pick := func(s api.Slot) bool { return s.Proof && (s.Vec == pr+".commitment" || s.Vec == pr+".pok") }
		copyCase("consistent/update-proof-of-parallel-chain", pr, p.B[k-1], pick)
		if k >= 2 {
			copyCase("consistent/update-proof-of-previous-contribution", pr, prev, pick)
		}
	}
	// all parameters of the parallel chain under this chain's proofs, and vice versa
	copyCase("consistent/all-parameters-of-parallel-chain", "parameters", p.B[k-1], func(s api.Slot) bool { return !s.Proof })
	copyCase("consistent/all-parameters-not-updated", "parameters", prev, func(s api.Slot) bool { return !s.Proof })
}

func (p *phase) tryStep(st api.Step, class, name string, prev, edited []byte, k int) {
	var de, ve error
	_, pan := safeS(p.ph+"/consistent", func() error { de, ve = st(edited); return nil })
	if de != nil && pan == "" {
		p.r.Inconclusive("edited-contribution-does-not-decode")
		return
	}
	p.reject(class, name, ve, pan, func() map[string]any {
		return map[string]any{"k": k, "edit": name, "previous": hx(prev), "edited_contribution": hx(edited)}
	})
}

// challengeEdits: the Challenge field of contribution k.
func (p *phase) challengeEdits(k, nBits int, honestOut func(chain [][]byte) ([]byte, error)) {
	base := p.A[k-1]
	l := p.layouts[k-1]
	ch := api.Challenge(base, l)
	prev := p.prevOf(p.A, k)
	st, err := p.step(prev)
	if err != nil {
		p.r.Inconclusive("step-decode-prev")
		return
	}
	try := func(name string, nc []byte) {
		if bytes.Equal(nc, ch) {
			return
		}
		edited := api.SetChallenge(base, l, nc)
		var de, ve error
		_, pan := safeS(p.ph+"/challenge", func() error { de, ve = st(edited); return nil })
		if de != nil && pan == "" {
			p.r.Count(p.ph+".challenge-edit.decode-error", 1)
			p.r.Eval(p.label+"|"+p.ph+"|challenge-decode|"+name, true)
			return
		}
		p.reject("challenge", fmt.Sprintf("k=%d %s", k, name), ve, pan, func() map[string]any {
			return map[string]any{"k": k, "edit": name, "challenge": hx(nc), "previous": hx(prev), "edited_contribution": hx(edited)}
		})
	}
	bits := p.rng.Perm(len(ch) * 8)
	if nBits > 0 && nBits < len(bits) {
		bits = bits[:nBits]
	}
	for _, bit := range bits {
		nc := append([]byte{}, ch...)
		nc[bit/8] ^= 1 << (bit % 8)
		try(fmt.Sprintf("bitflip[%d]", bit), nc)
	}
	try("parallel-chain-challenge", api.Challenge(p.B[k-1], mustLayout(p, p.B[k-1])))
	if k >= 2 {
		try("previous-contribution-challenge", api.Challenge(p.A[k-2], p.layouts[k-2]))
	}
	if k < chainLen {
		try("next-contribution-challenge", api.Challenge(p.A[k], p.layouts[k]))
	}
	try("truncated-by-one", ch[:len(ch)-1])
	try("extended-by-zero-byte", append(append([]byte{}, ch...), 0))
	try("one-byte", ch[:1])
	try("all-zero", make([]byte, len(ch)))

	// documented tolerance: an empty Challenge is filled in by the verifier.  Not a must-reject
	// case; if accepted, the transcript must produce exactly the honest output.
	chain := append([][]byte{}, p.A...)
	chain[k-1] = api.SetChallenge(base, l, nil)
	p.r.Eval(fmt.Sprintf("%s|%s|challenge-emptied|%d", p.label, p.ph, k), true)
	var out, ref []byte
	err, pan := safe(func() (e error) { out, e = honestOut(chain); return })
	switch {
	case pan != "":
		p.r.Violation("panic/"+p.ph+"/challenge-emptied", "verifier panicked on a contribution with an empty Challenge: "+pan, p.replay(map[string]any{"k": k, "chain": hxs(chain)}))
	case err != nil:
		p.r.Count(p.ph+".tolerance.empty-challenge.rejected", 1)
	default:
		p.r.Count(p.ph+".tolerance.empty-challenge.accepted", 1)
		if ref, err = honestOut(p.A); err == nil && !bytes.Equal(ref, out) {
			p.r.Violation("empty-challenge-changes-output/"+p.ph, "a transcript with one Challenge field emptied was accepted but produced a different output than the untouched transcript",
				p.replay(map[string]any{"k": k, "chain": hxs(chain)}))
		} else if err == nil {
			p.r.Count(p.ph+".tolerance.empty-challenge.same-output-as-honest", 1)
		}
	}
}

func mustLayout(p *phase, b []byte) *api.Layout {
	l, err := p.layout(b)
	if err != nil {
		panic(err)
	}
	return l
}

// chainCases: attacks on the order / provenance of whole contributions.
func (p *phase) chainCases(all bool) {
	try1 := func(class, name string, chain [][]byte) {
		err, pan := safeS(p.ph+"/chain", func() error { return p.full(chain) })
		p.reject("chain/"+class, name, err, pan, func() map[string]any {
			return map[string]any{"case": name, "chain": hxs(chain), "initial": hx(p.init)}
		})
	}
	// every attack is offered as is and with all Challenge fields emptied (the verifier then fills
	// them in itself: the tolerance must not turn a wrong chain into an accepted one)
	type ccase struct {
		class, name string
		chain       [][]byte
	}
	var cases []ccase
	try := func(class, name string, chain [][]byte) { cases = append(cases, ccase{class, name, chain}) }
	run := func(class, name string, chain [][]byte) {
		try1(class, name, chain)
		emptied := make([][]byte, len(chain))
		for i := range chain {
			l, err := p.layout(chain[i])
			if err != nil {
				return
			}
			emptied[i] = api.SetChallenge(chain[i], l, nil)
		}
		try1(class+",challenges-emptied", name, emptied)
	}
	cp := func() [][]byte { return append([][]byte{}, p.A...) }
	// reordered
	for i := 0; i < chainLen; i++ {
		for j := i + 1; j < chainLen; j++ {
			c := cp()
			c[i], c[j] = c[j], c[i]
			try("reordered", fmt.Sprintf("swap(%d,%d)", i+1, j+1), c)
		}
	}
	rev := cp()
	for i, j := 0, len(rev)-1; i < j; i, j = i+1, j-1 {
		rev[i], rev[j] = rev[j], rev[i]
	}
	try("reordered", "reversed", rev)
	try("reordered", "rotated", append(cp()[1:], p.A[0]))
	// spliced from the parallel transcript
	for k := 1; k <= chainLen; k++ {
		c := cp()
		c[k-1] = p.B[k-1]
		try("spliced", fmt.Sprintf("A-with-B[%d]", k), c)
		if k >= 2 {
			try("spliced", fmt.Sprintf("A[:%d]+B[%d:]", k-1, k-1), append(append([][]byte{}, p.A[:k-1]...), p.B[k-1:]...))
		}
	}
	// dropped / duplicated
	for k := 1; k < chainLen; k++ {
		c := append(append([][]byte{}, p.A[:k-1]...), p.A[k:]...)
		try("dropped", fmt.Sprintf("without[%d]", k), c)
	}
	for k := 1; k <= chainLen; k++ {
		c := append(append(append([][]byte{}, p.A[:k]...), p.A[k-1]), p.A[k:]...)
		try("duplicated", fmt.Sprintf("twice[%d]", k), c)
	}
	// contribution k built on k-2 (a fork), offered after k-1: as produced, with the Challenge emptied
	// (the tolerance must not help), and with the Challenge the verifier expects
	for k := 2; k <= chainLen; k++ {
		var base []byte
		if k == 2 {
			base = p.init
		} else {
			base = p.A[k-3]
		}
		f, err := p.contribute(base)
		if err != nil {
			p.r.Inconclusive("fork-contribute")
			continue
		}
		fl, err := p.layout(f)
		if err != nil {
			p.r.Inconclusive("fork-layout")
			continue
		}
		pre := append([][]byte{}, p.A[:k-1]...)
		try("built-on-k-2", fmt.Sprintf("fork[%d]", k), append(append([][]byte{}, pre...), f))
		try("built-on-k-2", fmt.Sprintf("fork[%d],challenge-emptied", k), append(append([][]byte{}, pre...), api.SetChallenge(f, fl, nil)))
		want := sha256.Sum256(p.A[k-2])
		try("built-on-k-2", fmt.Sprintf("fork[%d],challenge-of-honest-successor", k), append(append([][]byte{}, pre...), api.SetChallenge(f, fl, want[:])))
		// honest contribution k with the Challenge emptied and k-1 missing
		try("built-on-k-2", fmt.Sprintf("without[%d],challenge-of-[%d]-emptied", k-1, k),
			append(append([][]byte{}, p.A[:k-2]...), api.SetChallenge(p.A[k-1], p.layouts[k-1], nil)))
	}
	if !all { // one PRNG-chosen case per class
		by := map[string][]ccase{}
		var classes []string
		for _, c := range cases {
			if _, ok := by[c.class]; !ok {
				classes = append(classes, c.class)
			}
			by[c.class] = append(by[c.class], c)
		}
		cases = cases[:0]
		for _, cl := range classes {
			cases = append(cases, by[cl][p.rng.IntN(len(by[cl]))])
		}
	}
	for _, c := range cases {
		run(c.class, c.name, c.chain)
	}
}

// ------------------------------------------------------------------ circuits

type circ struct {
	spec *circuits.Spec
	ccs  constraint.ConstraintSystem
	N    uint64
	nCom int
}

func nextPow2(n int) uint64 {
	N := uint64(1)
	for N < uint64(n) {
		N *= 2
	}
	return N
}

// findCircuit draws a generated circuit with nCommit commitments whose domain is targetN if such a
// squaring-chain length exists (else the nearest larger one).
func findCircuit(rng *rand.Rand, field *big.Int, nCommit int, targetN uint64) (*circ, error) {
	s := &circuits.Spec{NPub: 1 + rng.IntN(3), NSec: 1 + rng.IntN(3)}
	if nCommit > 0 && s.NSec < 2 {
		s.NSec = 2
	}
	if s.NPub == 3 && rng.IntN(2) == 0 {
		s.UnusedPub = []int{2}
	}
	tmpl := [][]circuits.CommitSpec{
		{{Sec: []int{0, 1}}, {Pub: []int{0}, Sec: []int{1}, Prev: []int{0}}},
		{{Pub: []int{0}, Sec: []int{0}}, {Sec: []int{0, 1}}},
		{{Sec: []int{1}}, {Pub: []int{0}}}, // second one commits to public data only: empty SigmaCKK
		{{Pub: []int{0}}, {Sec: []int{0}, Prev: []int{0}}},
	}
	s.Commits = append(s.Commits, tmpl[rng.IntN(len(tmpl))][:nCommit]...)
	var fits []int
	var first *circ
	for m := 0; m <= 70; m++ {
		s.Muls = m
		ccs, err := frontend.Compile(field, r1cs.NewBuilder, s.New())
		if err != nil {
			return nil, err
		}
		N := nextPow2(ccs.GetNbConstraints())
		if first == nil && N >= targetN {
			cp := *s
			first = &circ{&cp, ccs, N, nCommit}
		}
		if N == targetN {
			fits = append(fits, m)
		}
		if N > targetN {
			break
		}
	}
	if len(fits) > 0 {
		s.Muls = fits[rng.IntN(len(fits))]
		ccs, err := frontend.Compile(field, r1cs.NewBuilder, s.New())
		if err != nil {
			return nil, err
		}
		return &circ{s, ccs, targetN, nCommit}, nil
	}
	if first == nil {
		return nil, fmt.Errorf("no circuit found")
	}
	return first, nil
}

// twin: two circuits of identical shape (same wires, same rows) that differ in one coefficient.
type twin struct {
	Out  frontend.Variable `gnark:",public"`
	A, B frontend.Variable
	k    int
	muls int
}

func (c *twin) Define(api frontend.API) error {
	acc := api.Mul(c.A, c.B)
	for i := 0; i < c.muls; i++ {
		acc = api.Mul(acc, api.Add(acc, api.Mul(c.A, c.k)))
	}
	api.AssertIsEqual(c.Out, api.Add(acc, api.Mul(c.B, c.k)))
	return nil
}

func twinOut(a, b *big.Int, k, muls int, p *big.Int) *big.Int {
	K := big.NewInt(int64(k))
	acc := new(big.Int).Mul(a, b)
	acc.Mod(acc, p)
	for i := 0; i < muls; i++ {
		t := new(big.Int).Mul(a, K)
		t.Add(t, acc)
		acc.Mul(acc, t).Mod(acc, p)
	}
	t := new(big.Int).Mul(b, K)
	return acc.Add(acc, t).Mod(acc, p)
}

// ------------------------------------------------------------------ the test

type p1Job struct {
	ops     *api.Ops
	N       uint64
	ef      effort
	ph      *phase
	commons [chainLen + 1][]byte // commons[k] = VerifyPhase1 output of A[:k] under beacon1
	ok      bool
}

// selectCurves: the curves of this run and, per curve, whether it gets the full workload.
// VERIF_CURVES (comma separated names) restricts the run; curves named there always get the full
// workload of the tier.  Without it the quick tier runs bn254 and bls12-377 in full and one
// reduced ceremony on each of the other five; thorough runs all seven in full.
func selectCurves(t *testing.T, quick bool) (cs []*api.Ops, full map[string]bool) {
	full = map[string]bool{}
	if env := os.Getenv("VERIF_CURVES"); env != "" {
		for _, n := range strings.Split(env, ",") {
			n = strings.TrimSpace(n)
			var found *api.Ops
			for _, o := range allCurves {
				if o.Name == n {
					found = o
				}
			}
			if found == nil {
				t.Fatalf("BROKEN-CHECK property=C18: VERIF_CURVES names unknown curve %q", n)
			}
			if !full[n] {
				cs = append(cs, found)
				full[n] = true
			}
		}
		return
	}
	for _, o := range allCurves {
		cs = append(cs, o)
		full[o.Name] = !quick
	}
	for _, o := range tierCurves(true) {
		full[o.Name] = true
	}
	return
}

func TestC18(t *testing.T) {
	r := vcore.Start(t, "C18")
	curves, fullCurve := selectCurves(t, r.Quick())
	var names []string
	for _, o := range curves {
		n := o.Name
		if !fullCurve[n] {
			n += "(reduced)"
		}
		names = append(names, n)
	}
	r.Set("curves", names)
	// quick: PRNG subset per (vector, class); thorough: the enumeration rule of elementEdits
	fullEf := effort{perClass: r.Pick(6, 0), nFull: r.Pick(4, 16), nBits: r.Pick(24, 40), allChains: true, twoKs: true, workers: 6}
	// reduced ceremonies (five curves of the quick tier, universal-phase-1 ceremonies): all update-proof
	// elements, both ends of every vector under every class, one chain-level case per class
	lightEf := effort{perClass: r.Pick(2, 4), nFull: r.Pick(2, 4), nBits: r.Pick(4, 8), allChains: false, twoKs: false, workers: 6}

	// ---- plan: circuits per curve (deterministic from the seed)
	type c2 struct {
		ops  *api.Ops
		idx  int
		c    *circ
		p1   *p1Job
		n1   int
		ef   effort
		mult uint64 // phase-1 domain / minimal domain of the circuit
	}
	var circuitsPlan []*c2
	p1jobs := map[string]*p1Job{}
	var p1list []*p1Job
	jobFor := func(o *api.Ops, N uint64, ef effort) *p1Job {
		key := fmt.Sprintf("%s/N=%d", o.Name, N)
		j := p1jobs[key]
		if j == nil {
			j = &p1Job{ops: o, N: N, ef: ef}
			p1jobs[key] = j
			p1list = append(p1list, j)
		} else if ef.heavier(j.ef) {
			j.ef = ef
		}
		return j
	}
	for ci, o := range curves {
		rng := r.Rand("plan/" + o.Name)
		type shape struct {
			N    uint64
			nCom int
			mult uint64
			ef   effort
		}
		var shapes []shape
		switch {
		case !fullCurve[o.Name]:
			shapes = []shape{{8, 1 + rng.IntN(2), 1, lightEf}}
		case r.Quick():
			ns := []uint64{2, 4, 8, 16, 32, 64}
			shapes = []shape{{ns[rng.IntN(3)], 0, 1, fullEf}, {ns[2+rng.IntN(4)], 1, 1, fullEf}, {ns[3+rng.IntN(3)], 2, 1, fullEf}, {64, rng.IntN(3), 1, fullEf}}
			// universal phase 1: a domain strictly larger than the circuit's (2x or 8x, alternating over curves and seeds)
			shapes = append(shapes, shape{ns[1+rng.IntN(2)], rng.IntN(3), []uint64{2, 8}[(ci+int(r.Seed))%2], lightEf})
		default:
			// every domain size 2..64, every commitment count at small and large domains
			for _, s := range [][2]uint64{{2, 0}, {4, 0}, {8, 1}, {8, 2}, {16, 0}, {16, 1}, {32, 2}, {32, 0}, {64, 1}, {64, 2}} {
				shapes = append(shapes, shape{s[0], int(s[1]), 1, fullEf})
			}
			shapes = append(shapes, shape{[]uint64{2, 4, 8}[rng.IntN(3)], rng.IntN(3), 8, lightEf}, shape{[]uint64{8, 16, 32}[rng.IntN(3)], 1 + rng.IntN(2), 2, lightEf},
				shape{4, 0, 2, lightEf}, shape{8, 2, 8, lightEf})
		}
		for i, sh := range shapes {
			c, err := findCircuit(rng, o.ID.ScalarField(), sh.nCom, sh.N)
			if err != nil {
				t.Fatalf("BROKEN-CHECK property=C18: circuit generation: %v", err)
			}
			j := jobFor(o, c.N*sh.mult, sh.ef)
			circuitsPlan = append(circuitsPlan, &c2{ops: o, idx: i, c: c, p1: j, n1: 1 + rng.IntN(chainLen), ef: sh.ef, mult: sh.mult})
		}
	}

	// ---- phase 1, once per (curve, N)
	vcore.Parallel(len(p1list), 8, func(i int) {
		j := p1list[i]
		runPhase1(r, j, i)
	})

	// ---- phase 2 per circuit
	vcore.Parallel(len(circuitsPlan), 8, func(i int) {
		c := circuitsPlan[i]
		if !c.p1.ok {
			r.Inconclusive("phase-1-failed")
			return
		}
		runPhase2(r, c.ops, c.idx, c.c, c.p1, c.n1, c.ef)
	})

	// ---- twin circuits: a chain for one circuit offered for a circuit of identical shape
	vcore.Parallel(len(curves), 4, func(i int) { runTwins(r, curves[i]) })

	// ---- the smallest legal domain, N=1 (one-constraint circuit)
	for _, o := range curves {
		probeDomainOne(r, o)
	}

	for _, ph := range []string{"p1", "p2"} {
		r.Require(ph+".honest-chain-accepted", 5)
		r.Require(ph+".challenge-equals-sha256-of-previous", 4)
		r.Require(ph+".element-edit.update-proof", 10)
		r.Require(ph+".element-edit.parameters", 50)
		r.Require(ph+".rejected.challenge", 10)
		r.Require(ph+".rejected.chain/reordered", 8)
		r.Require(ph+".rejected.chain/spliced", 7)
		r.Require(ph+".rejected.chain/built-on-k-2", 12)
		r.Require(ph+".rejected.chain/dropped", 3)
		r.Require(ph+".rejected.chain/reordered,challenges-emptied", 8)
		r.Require(ph+".rejected.chain/spliced,challenges-emptied", 7)
		r.Require(ph+".rejected.consistent/rescaled", 6)
		r.Require(ph+".rejected.consistent/update-proof-of-parallel-chain", 4)
		r.Require(ph+".rejected.consistent/vector-not-updated", 4)
		for _, cl := range editClasses {
			r.Require(ph+".rejected.element/"+cl, 10)
		}
	}
	r.Require("p2.rejected.foreign/commons", 3)
	r.Require("p2.rejected.foreign/circuit", 1)
	r.Require("keys.proofs-verified", 9)
	r.Require("keys.circuits.commitments=0", 1)
	r.Require("keys.circuits.commitments=1", 1)
	r.Require("keys.circuits.commitments=2", 1)
	r.Require("keys.cross-key-rejected", 4)
	r.Require("universal.honest-chains-accepted", 1)
	r.Require("universal.keys.proofs-verified", 3)
	busyMu.Lock()
	bs := map[string]float64{}
	for k, v := range busy {
		bs[k] = float64(int(v*10)) / 10
	}
	busyMu.Unlock()
	r.Set("seconds_inside_gnark_by_case_kind(reporting-only)", bs)
	level := "exploration" // both tiers: the quick tier samples the element space, and MANIFEST claims one level
	r.Finish(level,
		"per curve: domain sizes 2..64 and generated circuits with 0/1/2 commitments; two honest 4-contribution chains per phase, every participant working from bytes; all prefixes (0..4 contributions) must verify, Challenge must equal SHA-256 of the previous serialization, keys of a PRNG-chosen (n1,n2) in 1..4 x 1..4 must prove+verify 3 witnesses and not be interchangeable with single-party keys; must-reject: single-element replacement (neighbour, generator, double, negation, identity, same slot of the parallel chain, same slot of the previous contribution) of elements of one contribution (thorough: every element incl. update proofs under neighbour/generator/double/parallel-chain, the other three classes on all proof elements, small contributions, vector ends and a PRNG quarter; quick: all proof elements + ends + PRNG subset per vector and class), consistent multi-element re-basings and transplanted vectors / update proofs, Challenge edits, reordered/spliced/dropped/duplicated/forked chains, foreign commons / circuit / domain; out-of-subgroup replacement P+T (cofactor torsion) in G1 and G2; ceremonies whose phase-1 domain is 2x / 8x the circuit's minimal domain (honest chain verifies, keys prove and verify, reduced attack set); quick tier: bn254 and bls12-377 in full, one reduced ceremony on each of the other five curves; VERIF_CURVES restricts the curves. distinct = (curve, N or circuit, phase, class, slot or case); non-trivial = the edited bytes differ from the honest ones",
		[]string{
			"soundness error of the random-linear-combination and hash-to-curve checks (~2^-250) treated as never",
			"contributions are generated with crypto/rand: case *selection* is seed-deterministic, the group elements are not; replay files carry the bytes",
			"replacement points are valid subgroup points except in the out-of-subgroup class (P+T, T of order dividing the cofactor), for which rejection by the decoder counts as rejection; G1 of BN254 has cofactor 1 (class absent there)",
			"an emptied Challenge field is a tolerance stated in the code (verifier fills it in): recorded, required only to leave the output unchanged",
			"N=1: NewPhase1/Initialize accept any power of two and N = NextPowerOfTwo(nbConstraints) is gnark's own recipe, so a one-constraint circuit (which single-party Setup handles) is taken to be in the domain of 'every domain size'",
		})
}

func runPhase1(r *vcore.Run, j *p1Job, idx int) {
	o := j.ops
	ef := j.ef
	label := fmt.Sprintf("%s/N=%d", o.Name, j.N)
	init, err := o.P1New(j.N)
	if err != nil {
		r.Inconclusive("p1new")
		return
	}
	p := &phase{r: r, ops: o, ph: "p1", label: label, rng: r.Rand("p1/" + label), desc: map[string]any{"curve": o.Name, "N": j.N},
		init: init, contribute: o.P1Contribute, step: o.P1Step, layout: o.P1Layout,
		full: func(chain [][]byte) error { _, err := o.P1Verify(j.N, beacon1, chain); return err }}
	j.ph = p
	r.Count("p1.ceremonies", 1)
	r.Count(fmt.Sprintf("p1.ceremonies.N=%d", j.N), 1)
	if !p.build() || !p.positives() {
		return
	}
	// history: the commons a verified transcript yielded must not change when the coordinator goes
	// on reading other contributions into the objects it already holds (here: a contribution of
	// the parallel chain, which does not extend this transcript)
	if o.P1VerifyThenReuse != nil {
		var before, after []byte
		err, pan := safe(func() (e error) { before, after, e = o.P1VerifyThenReuse(j.N, beacon1, p.A, p.B[len(p.B)-1]); return })
		r.Eval(label+"|p1|commons-after-object-reuse", true)
		switch {
		case err != nil || pan != "":
			r.Inconclusive("p1-verify-then-reuse:" + fmt.Sprint(err, pan))
		case !bytes.Equal(before, after):
			r.Violation("verified-commons-overwritten-by-later-read/p1", "the commons returned by VerifyPhase1 changed when the last contribution object was reused to read a contribution of another chain: keys would be derived from parameters this transcript never verified",
				p.replay(map[string]any{"chain": hxs(p.A), "other": hx(p.B[len(p.B)-1])}))
		default:
			r.Count("p1.commons-unchanged-after-object-reuse", 1)
		}
	}
	for k := 0; k <= chainLen; k++ {
		if j.commons[k], err = o.P1Verify(j.N, beacon1, p.A[:k]); err != nil {
			return
		}
	}
	j.ok = true
	// determinism of the sealing and dependence on the beacon and on every contribution
	again, _ := o.P1Verify(j.N, beacon1, p.A)
	other, _ := o.P1Verify(j.N, beacon1b, p.A)
	r.Eval(label+"|p1|seal-deterministic", true)
	if !bytes.Equal(again, j.commons[chainLen]) {
		r.Violation("seal-not-reproducible/p1", "VerifyPhase1 on the same bytes and beacon returned different commons", p.replay(map[string]any{"chain": hxs(p.A)}))
	} else {
		r.Count("p1.seal-reproducible", 1)
	}
	r.Eval(label+"|p1|beacon-changes-commons", true)
	if bytes.Equal(other, j.commons[chainLen]) {
		r.Violation("beacon-ignored/p1", "VerifyPhase1 returned the same commons under two different beacons", p.replay(map[string]any{"chain": hxs(p.A)}))
	} else {
		r.Count("p1.beacon-changes-commons", 1)
	}
	for k := 1; k <= chainLen; k++ {
		r.Eval(fmt.Sprintf("%s|p1|prefix-commons-differ|%d", label, k), true)
		if bytes.Equal(j.commons[k], j.commons[k-1]) {
			r.Violation("contribution-ignored/p1", fmt.Sprintf("commons after %d and %d contributions are equal", k-1, k), p.replay(map[string]any{"chain": hxs(p.A)}))
		} else {
			r.Count("p1.commons-depend-on-each-contribution", 1)
		}
	}

	k := 1
	if idx%2 == 1 {
		k = 2 + p.rng.IntN(chainLen-1)
	}
	p.elementEdits(k, ef)
	if ef.twoKs {
		p.consistentEdits(1)
		p.consistentEdits(2 + p.rng.IntN(chainLen-1))
	} else {
		p.consistentEdits(1 + p.rng.IntN(chainLen))
	}
	p.challengeEdits(k, ef.nBits, func(chain [][]byte) ([]byte, error) { return o.P1Verify(j.N, beacon1, chain) })
	p.chainCases(ef.allChains)
	// foreign domain size
	for _, N2 := range []uint64{j.N * 2, j.N / 2} {
		if N2 < 2 {
			continue
		}
		err, pan := safe(func() error { _, e := o.P1Verify(N2, beacon1, p.A); return e })
		p.reject("foreign/domain", fmt.Sprintf("chain-for-N-verified-as-N*%d/%d", N2, j.N), err, pan, func() map[string]any {
			return map[string]any{"verified_as_N": N2, "chain": hxs(p.A)}
		})
	}
}

func vkBytes(vk groth16.VerifyingKey) []byte {
	var b bytes.Buffer
	vk.WriteTo(&b)
	return b.Bytes()
}

func pkBytes(pk groth16.ProvingKey) []byte {
	var b bytes.Buffer
	pk.WriteTo(&b)
	return b.Bytes()
}

func runPhase2(r *vcore.Run, o *api.Ops, idx int, c *circ, j *p1Job, n1 int, ef effort) {
	label := fmt.Sprintf("%s/circuit%d(N=%d,commitments=%d)", o.Name, idx, c.N, c.nCom)
	universal := j.N > c.N
	if universal {
		label = fmt.Sprintf("%s/circuit%d(N=%d,commitments=%d,phase1-N=%d)", o.Name, idx, c.N, c.nCom, j.N)
	}
	rng := r.Rand("p2/" + label)
	field := o.ID.ScalarField()
	commons := j.commons[n1]
	desc := map[string]any{"curve": o.Name, "N": c.N, "phase1_N": j.N, "circuit": c.spec.String(), "phase1_contributions": n1, "commons": hx(commons)}
	var init []byte
	err, pan := safe(func() (e error) { init, e = o.P2New(c.ccs, commons); return })
	if err != nil || pan != "" {
		r.Violation("phase2-initialize-failed", fmt.Sprintf("Phase2.Initialize failed on verified commons: %v %s", err, pan), desc)
		return
	}
	p := &phase{r: r, ops: o, ph: "p2", label: label, rng: rng, desc: desc,
		init: init, contribute: o.P2Contribute, step: o.P2Step, layout: o.P2Layout,
		full: func(chain [][]byte) error { _, _, err := o.P2Verify(c.ccs, commons, beacon2, chain); return err }}
	r.Count("p2.ceremonies", 1)
	r.Count(fmt.Sprintf("p2.ceremonies.N=%d", c.N), 1)
	r.Count(fmt.Sprintf("p2.ceremonies.commitments=%d", c.nCom), 1)
	r.Count(fmt.Sprintf("p2.ceremonies.phase1-contributions=%d", n1), 1)
	if universal {
		r.Count(fmt.Sprintf("universal.ceremonies.phase1-domain=%dx-minimal", j.N/c.N), 1)
	}
	if !p.build() || !p.positives() {
		return
	}
	if universal {
		r.Count("universal.honest-chains-accepted", 1)
	}

	// ---- the extracted keys work
	n2 := 1 + rng.IntN(chainLen)
	r.Count(fmt.Sprintf("keys.phase2-contributions=%d", n2), 1)
	pk, vk, err := o.P2Verify(c.ccs, commons, beacon2, p.A[:n2])
	if err != nil {
		return // already reported by positives()
	}
	r.Count(fmt.Sprintf("keys.circuits.commitments=%d", c.nCom), 1)
	spk, svk, serr := groth16.Setup(c.ccs)
	var firstProof groth16.Proof
	var firstPub []*big.Int
	for w := 0; w < 3; w++ {
		pub, sec := c.spec.Assign(rng, field)
		full, err := circuits.MakeWitness(field, pub, sec)
		if err != nil {
			r.Inconclusive("witness")
			continue
		}
		pw, _ := full.Public()
		rep := map[string]any{"public": vec(pub), "secret": vec(sec), "phase2_contributions": n2, "chain": hxs(p.A[:n2])}
		r.Eval(fmt.Sprintf("%s|keys|witness%d", label, w), true)
		var proof groth16.Proof
		err, pan := safe(func() (e error) { proof, e = groth16.Prove(c.ccs, pk, full); return })
		if err != nil || pan != "" {
			// is it the keys or the circuit/witness? ask the single-party keys
			if serr == nil {
				if _, e2 := groth16.Prove(c.ccs, spk, full); e2 == nil {
					r.Violation("mpc-keys-cannot-prove", fmt.Sprintf("Prove failed with the ceremony's proving key (%v %s) but succeeds with a single-party Setup key", err, pan), p.replay(rep))
					continue
				}
			}
			r.Inconclusive("prove-fails-with-any-key")
			continue
		}
		err, pan = safe(func() error { return groth16.Verify(proof, vk, pw) })
		if err != nil || pan != "" {
			r.Count("keys.proof-REJECTED", 1)
			r.Violation("mpc-keys-proof-rejected", fmt.Sprintf("a proof made with the ceremony's proving key is rejected by the ceremony's verifying key: %v %s", err, pan), p.replay(rep))
			continue
		}
		r.Count("keys.proofs-verified", 1)
		if universal {
			r.Count("universal.keys.proofs-verified", 1)
		}
		if firstProof == nil {
			firstProof, firstPub = proof, pub
		}
		// the keys really are the ceremony's: not interchangeable with a single-party setup
		if serr == nil && w == 0 {
			r.Eval(label+"|keys|cross-single-party", true)
			e1, _ := safe(func() error { return groth16.Verify(proof, svk, pw) })
			sproof, e := groth16.Prove(c.ccs, spk, full)
			var e2 error = fmt.Errorf("no single-party proof")
			if e == nil {
				e2, _ = safe(func() error { return groth16.Verify(sproof, vk, pw) })
				if e3 := groth16.Verify(sproof, svk, pw); e3 != nil {
					r.Inconclusive("single-party-proof-rejected")
				}
			}
			if e1 == nil || e2 == nil {
				r.Violation("keys-interchangeable-with-single-party-setup", "a proof verified across ceremony keys and unrelated single-party Setup keys", p.replay(rep))
			} else {
				r.Count("keys.cross-key-rejected", 2)
			}
		}
	}
	_ = firstPub
	// sealing is reproducible, depends on the beacon, and on each contribution
	r.Eval(label+"|p2|seal-deterministic", true)
	pkA, vkA, err := o.P2Verify(c.ccs, commons, beacon2, p.A[:n2])
	if err == nil && (!bytes.Equal(vkBytes(vkA), vkBytes(vk)) || !bytes.Equal(pkBytes(pkA), pkBytes(pk))) {
		r.Violation("seal-not-reproducible/p2", "VerifyPhase2 on the same bytes and beacon returned different keys", p.replay(map[string]any{"chain": hxs(p.A[:n2])}))
	} else if err == nil {
		r.Count("p2.seal-reproducible", 1)
	}
	r.Eval(label+"|p2|beacon-changes-keys", true)
	_, vkB, err := o.P2Verify(c.ccs, commons, beacon2b, p.A[:n2])
	if err == nil {
		if bytes.Equal(vkBytes(vkB), vkBytes(vk)) {
			r.Violation("beacon-ignored/p2", "VerifyPhase2 returned the same verifying key under two different beacons", p.replay(map[string]any{"chain": hxs(p.A[:n2])}))
		} else {
			r.Count("p2.beacon-changes-keys", 1)
		}
		if firstProof != nil {
			pw, _ := circuits.MakeWitness(field, firstPub, nil)
			if e, _ := safe(func() error { return groth16.Verify(firstProof, vkB, pw) }); e == nil {
				r.Violation("beacon-ignored/p2", "a proof under the keys sealed with one beacon verifies under the keys sealed with another", p.replay(map[string]any{"chain": hxs(p.A[:n2])}))
			} else {
				r.Count("keys.cross-key-rejected", 1)
			}
		}
	}
	if n2 >= 1 {
		r.Eval(label+"|p2|prefix-keys-differ", true)
		_, vkP, err := o.P2Verify(c.ccs, commons, beacon2, p.A[:n2-1])
		if err == nil && bytes.Equal(vkBytes(vkP), vkBytes(vk)) {
			r.Violation("contribution-ignored/p2", fmt.Sprintf("keys after %d and %d contributions are equal", n2-1, n2), p.replay(map[string]any{"chain": hxs(p.A[:n2])}))
		} else if err == nil {
			r.Count("p2.keys-depend-on-last-contribution", 1)
		}
	}

	// ---- attacks
	k := 1
	if idx%2 == 1 {
		k = 2 + rng.IntN(chainLen-1)
	}
	p.elementEdits(k, ef)
	if ef.twoKs {
		p.consistentEdits(1)
		p.consistentEdits(2 + rng.IntN(chainLen-1))
	} else {
		p.consistentEdits(1 + rng.IntN(chainLen))
	}
	p.challengeEdits(k, ef.nBits, func(chain [][]byte) ([]byte, error) {
		_, vk, err := o.P2Verify(c.ccs, commons, beacon2, chain)
		if err != nil {
			return nil, err
		}
		return vkBytes(vk), nil
	})
	p.chainCases(ef.allChains)

	// foreign commons: the parallel phase-1 transcript, another beacon, one contribution fewer / more
	foreign := func(class, name string, ccs constraint.ConstraintSystem, cm []byte) {
		err, pan := safe(func() error { _, _, e := o.P2Verify(ccs, cm, beacon2, p.A); return e })
		if pan != "" && bytes.Contains([]byte(pan), []byte("Number of constraints is larger than expected")) {
			// documented precondition of Initialize on the coordinator's own arguments
			r.Count("p2.foreign.coordinator-precondition-panic", 1)
			return
		}
		p.reject("foreign/"+class, name, err, pan, func() map[string]any {
			return map[string]any{"case": name, "foreign_commons": hx(cm), "chain": hxs(p.A)}
		})
	}
	if cb, err := o.P1Verify(j.N, beacon1, j.ph.B[:n1]); err == nil {
		foreign("commons", "commons-of-parallel-phase1-transcript", c.ccs, cb)
	}
	if cb, err := o.P1Verify(j.N, beacon1b, j.ph.A[:n1]); err == nil {
		foreign("commons", "commons-sealed-with-another-beacon", c.ccs, cb)
	}
	foreign("commons", "commons-of-one-contribution-fewer", c.ccs, j.commons[n1-1])
	if n1 < chainLen {
		foreign("commons", "commons-of-one-contribution-more", c.ccs, j.commons[n1+1])
	}
	// foreign circuit: same domain, one more / fewer squaring
	for _, d := range []int{1, -1} {
		s2 := *c.spec
		s2.Muls += d
		if s2.Muls < 0 {
			continue
		}
		ccs2, err := frontend.Compile(field, r1cs.NewBuilder, s2.New())
		if err != nil || nextPow2(ccs2.GetNbConstraints()) > j.N {
			continue
		}
		foreign("circuit", fmt.Sprintf("same-commons,circuit-with-muls%+d", d), ccs2, commons)
	}
}

func vec(v []*big.Int) []string {
	o := make([]string, len(v))
	for i := range v {
		o[i] = v[i].String()
	}
	return o
}

// runTwins: circuits of identical shape that differ in one coefficient share commons; a phase-2
// chain made for one must be rejected for the other, and each circuit's own chain must work.
func runTwins(r *vcore.Run, o *api.Ops) {
	field := o.ID.ScalarField()
	rng := r.Rand("twins/" + o.Name)
	muls := 1 + rng.IntN(5)
	k1 := 2 + rng.IntN(5)
	k2 := k1 + 1 + rng.IntN(5)
	var ccs [2]constraint.ConstraintSystem
	for i, k := range []int{k1, k2} {
		var err error
		if ccs[i], err = frontend.Compile(field, r1cs.NewBuilder, &twin{k: k, muls: muls}); err != nil {
			r.Inconclusive("twin-compile")
			return
		}
	}
	if ccs[0].GetNbConstraints() != ccs[1].GetNbConstraints() {
		r.Inconclusive("twins-differ-in-shape")
		return
	}
	N := nextPow2(ccs[0].GetNbConstraints())
	label := fmt.Sprintf("%s/twins(k=%d|%d,muls=%d,N=%d)", o.Name, k1, k2, muls, N)
	cur, err := o.P1New(N)
	if err != nil {
		r.Inconclusive("twin-p1")
		return
	}
	var c1 [][]byte
	for i := 0; i < 2; i++ {
		if cur, err = o.P1Contribute(cur); err != nil {
			r.Inconclusive("twin-p1")
			return
		}
		c1 = append(c1, cur)
	}
	commons, err := o.P1Verify(N, beacon1, c1)
	if err != nil {
		r.Inconclusive("twin-p1-verify")
		return
	}
	var chains [2][][]byte
	for i := range ccs {
		cur, err := o.P2New(ccs[i], commons)
		if err != nil {
			r.Inconclusive("twin-p2")
			return
		}
		for n := 0; n < 2; n++ {
			if cur, err = o.P2Contribute(cur); err != nil {
				r.Inconclusive("twin-p2")
				return
			}
			chains[i] = append(chains[i], cur)
		}
	}
	ks := []int{k1, k2}
	for i := range ccs {
		for jx := range ccs {
			name := fmt.Sprintf("chain-of-twin%d-for-twin%d", i, jx)
			r.Eval(label+"|"+name, true)
			var pk groth16.ProvingKey
			var vk groth16.VerifyingKey
			err, pan := safe(func() (e error) { pk, vk, e = o.P2Verify(ccs[jx], commons, beacon2, chains[i]); return })
			rep := map[string]any{"curve": o.Name, "N": N, "k": ks, "muls": muls, "commons": hx(commons), "chain": hxs(chains[i]), "case": name}
			if i == jx {
				if err != nil || pan != "" {
					r.Violation("honest-chain-rejected/p2", fmt.Sprintf("twin circuit's own chain rejected: %v %s", err, pan), rep)
					continue
				}
				r.Count("p2.honest-chain-accepted", 1)
				a, b := big.NewInt(int64(3+rng.IntN(1000))), circuits.RandFieldElem(rng, field)
				out := twinOut(a, b, ks[i], muls, field)
				full, _ := circuits.MakeWitness(field, []*big.Int{out}, []*big.Int{a, b})
				pw, _ := full.Public()
				proof, err := groth16.Prove(ccs[i], pk, full)
				if err != nil {
					r.Violation("mpc-keys-cannot-prove", "twin circuit: Prove failed with the ceremony's key: "+err.Error(), rep)
					continue
				}
				if err := groth16.Verify(proof, vk, pw); err != nil {
					r.Violation("mpc-keys-proof-rejected", "twin circuit: proof rejected: "+err.Error(), rep)
					continue
				}
				r.Count("keys.proofs-verified", 1)
				continue
			}
			switch {
			case pan != "":
				r.Violation("panic/p2/foreign/circuit", "VerifyPhase2 panicked on a chain made for a twin circuit: "+pan, rep)
			case err == nil:
				r.Count("p2.ACCEPTED-must-reject", 1)
				r.Violation("accepted/p2/foreign/twin-circuit", "VerifyPhase2 accepted a chain made for a circuit that differs in one coefficient", rep)
			default:
				r.Count("p2.rejected.foreign/circuit", 1)
				r.Count("p2.rejected.foreign/twin-circuit", 1)
				r.Count("p2.reject-reason: "+err.Error(), 1)
				r.SampleClass("p2/foreign/twin-circuit", map[string]any{"curve": o.Name, "where": label, "case": name, "verifier_said": err.Error()})
			}
		}
	}
}

// oneRow is a legitimate circuit with a single constraint: its FFT domain has size 1.
type oneRow struct {
	Out frontend.Variable `gnark:",public"`
	A   frontend.Variable
}

func (c *oneRow) Define(api frontend.API) error {
	api.AssertIsEqual(c.A, c.Out)
	return nil
}

// probeDomainOne: the smallest legal domain.  NewPhase1/Initialize accept every power of two and
// gnark's own recipe is N = NextPowerOfTwo(nbConstraints), so a one-constraint circuit has N = 1.
// The statement quantifies over every domain size: the honest ceremony must verify (or at least
// answer with an error); single-party Setup/Prove/Verify of the same circuit is the reference.
func probeDomainOne(r *vcore.Run, o *api.Ops) {
	field := o.ID.ScalarField()
	label := o.Name + "/N=1"
	ccs, err := frontend.Compile(field, r1cs.NewBuilder, &oneRow{})
	if err != nil || ccs.GetNbConstraints() != 1 {
		r.Inconclusive("one-constraint-circuit-unavailable")
		return
	}
	N := nextPow2(ccs.GetNbConstraints())
	full, _ := circuits.MakeWitness(field, []*big.Int{big.NewInt(7)}, []*big.Int{big.NewInt(7)})
	pw, _ := full.Public()
	refOK := false
	if pk, vk, err := groth16.Setup(ccs); err == nil {
		if proof, err := groth16.Prove(ccs, pk, full); err == nil && groth16.Verify(proof, vk, pw) == nil {
			refOK = true
		}
	}
	if !refOK {
		r.Inconclusive("one-constraint-circuit-fails-with-single-party-setup")
		return
	}
	r.Count("domain1.single-party-setup-proves-and-verifies", 1)
	r.Eval(label+"|honest-ceremony", true)
	stage := "NewPhase1"
	var init, c1, commons []byte
	rep := map[string]any{"curve": o.Name, "N": N, "circuit": "Out public, A secret; AssertIsEqual(A, Out) (1 constraint)"}
	err, pan := safe(func() (e error) {
		if init, e = o.P1New(N); e != nil {
			return
		}
		stage = "Phase1.Contribute"
		if c1, e = o.P1Contribute(init); e != nil {
			return
		}
		rep["contribution"] = hx(c1)
		stage = "VerifyPhase1(N=1, 1 honest contribution)"
		commons, e = o.P1Verify(N, beacon1, [][]byte{c1})
		return
	})
	rep["stage"] = stage
	switch {
	case pan != "":
		r.Count("domain1.honest-ceremony-PANICS at "+stage, 1)
		rep["panic"] = pan
		r.Violation("honest-chain-panics/p1/domain-size-1",
			fmt.Sprintf("%s: honest phase-1 ceremony for a one-constraint circuit (N=1) panicked at %s: %s", o.Name, stage, firstLine(pan)), rep)
		return
	case err != nil:
		r.Count("domain1.honest-ceremony-rejected at "+stage, 1)
		r.Violation("honest-chain-rejected/p1/domain-size-1",
			fmt.Sprintf("%s: honest phase-1 ceremony for a one-constraint circuit (N=1) failed at %s: %v", o.Name, stage, err), rep)
		return
	}
	r.Count("domain1.phase1-accepted", 1)
	// phase 2 and keys
	var pk groth16.ProvingKey
	var vk groth16.VerifyingKey
	stage = "Phase2.Initialize"
	err, pan = safe(func() (e error) {
		var p0, p1 []byte
		if p0, e = o.P2New(ccs, commons); e != nil {
			return
		}
		stage = "Phase2.Contribute"
		if p1, e = o.P2Contribute(p0); e != nil {
			return
		}
		stage = "VerifyPhase2"
		if pk, vk, e = o.P2Verify(ccs, commons, beacon2, [][]byte{p1}); e != nil {
			return
		}
		stage = "Prove/Verify with the ceremony's keys"
		proof, e := groth16.Prove(ccs, pk, full)
		if e != nil {
			return e
		}
		return groth16.Verify(proof, vk, pw)
	})
	rep["stage"] = stage
	if pan != "" || err != nil {
		rep["panic"] = pan
		r.Violation("honest-chain-fails/p2/domain-size-1", fmt.Sprintf("%s: N=1 ceremony failed at %s: %v %s", o.Name, stage, err, firstLine(pan)), rep)
		return
	}
	r.Count("domain1.keys-prove-and-verify", 1)
}

func firstLine(s string) string {
	if i := strings.IndexByte(s, '\n'); i > 0 {
		return s[:i]
	}
	return s
}
