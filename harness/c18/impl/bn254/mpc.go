//go:build verif

// Package mpc is the per-curve part of the C18 monitor (Groth16 MPC setup),
// written once against bn254 and instantiated for the other six curves by
// c18/gen.sh (textual substitution bn254 -> <curve>, BN254 -> <CURVE>).
//
// Everything crosses the package boundary as []byte (serialized contributions,
// serialized SrsCommons, compressed points) or as curve-agnostic gnark
// interfaces, so the test in c18/ is written once.  Participants of a ceremony
// are modelled the way a real one works: each contributor and the verifier
// start from bytes.
package mpc

import (
	"bytes"
	"errors"
	"fmt"
	"io"
	"math/big"

	"github.com/consensys/gnark-crypto/ecc"
	curve "github.com/consensys/gnark-crypto/ecc/bn254"
	"github.com/consensys/gnark/backend/groth16"
	"github.com/consensys/gnark/backend/groth16/bn254/mpcsetup"
	"github.com/consensys/gnark/constraint"
	cs "github.com/consensys/gnark/constraint/bn254"

	"github.com/consensys/gnark/verifharness/c18/impl/api"
)

const Name = "bn254"

var ID = ecc.BN254

const (
	G1Size = curve.SizeOfG1AffineCompressed
	G2Size = curve.SizeOfG2AffineCompressed
)

// ---------------------------------------------------------------- ceremony

func p1Bytes(p *mpcsetup.Phase1) ([]byte, error) {
	var b bytes.Buffer
	if _, err := p.WriteTo(&b); err != nil {
		return nil, err
	}
	return b.Bytes(), nil
}

func p1Read(b []byte) (*mpcsetup.Phase1, error) {
	p := new(mpcsetup.Phase1)
	n, err := p.ReadFrom(bytes.NewReader(b))
	if err != nil {
		return nil, err
	}
	if int(n) != len(b) {
		return nil, fmt.Errorf("phase1 decode consumed %d of %d bytes", n, len(b))
	}
	return p, nil
}

func p2Bytes(p *mpcsetup.Phase2) ([]byte, error) {
	var b bytes.Buffer
	if _, err := p.WriteTo(&b); err != nil {
		return nil, err
	}
	return b.Bytes(), nil
}

func p2Read(b []byte) (*mpcsetup.Phase2, error) {
	p := new(mpcsetup.Phase2)
	n, err := p.ReadFrom(bytes.NewReader(b))
	if err != nil {
		return nil, err
	}
	if int(n) != len(b) {
		return nil, fmt.Errorf("phase2 decode consumed %d of %d bytes", n, len(b))
	}
	return p, nil
}

// P1New returns the serialized "empty" phase-1 object for domain size N.
func P1New(N uint64) ([]byte, error) { return p1Bytes(mpcsetup.NewPhase1(N)) }

// P1Contribute is one participant: decode the previous contribution, contribute, encode.
func P1Contribute(prev []byte) ([]byte, error) {
	p, err := p1Read(prev)
	if err != nil {
		return nil, err
	}
	p.Contribute()
	return p1Bytes(p)
}

// P1Verify is the coordinator: decode every contribution, VerifyPhase1, return the serialized commons.
func P1Verify(N uint64, beacon []byte, contribs [][]byte) ([]byte, error) {
	c := make([]*mpcsetup.Phase1, len(contribs))
	for i := range contribs {
		var err error
		if c[i], err = p1Read(contribs[i]); err != nil {
			return nil, fmt.Errorf("decode contribution %d: %w", i, err)
		}
	}
	commons, err := mpcsetup.VerifyPhase1(N, beacon, c...)
	if err != nil {
		return nil, err
	}
	var b bytes.Buffer
	if _, err := commons.WriteTo(&b); err != nil {
		return nil, err
	}
	return b.Bytes(), nil
}

// P1Step holds a decoded "previous" object; Step(next) is Phase1.Verify.
// Verify only reads the previous object, so Step may be called concurrently.
type P1Step struct{ prev *mpcsetup.Phase1 }

func NewP1Step(prev []byte) (*P1Step, error) {
	p, err := p1Read(prev)
	if err != nil {
		return nil, err
	}
	return &P1Step{p}, nil
}

// Step returns (decodeErr, verifyErr).
func (s *P1Step) Step(next []byte) (error, error) {
	n, err := p1Read(next)
	if err != nil {
		return err, nil
	}
	return nil, s.prev.Verify(n)
}

func readCommons(b []byte) (*mpcsetup.SrsCommons, error) {
	c := new(mpcsetup.SrsCommons)
	n, err := c.ReadFrom(bytes.NewReader(b))
	if err != nil {
		return nil, err
	}
	if int(n) != len(b) {
		return nil, fmt.Errorf("commons decode consumed %d of %d bytes", n, len(b))
	}
	return c, nil
}

func r1csOf(ccs constraint.ConstraintSystem) (*cs.R1CS, error) {
	r, ok := ccs.(*cs.R1CS)
	if !ok {
		return nil, fmt.Errorf("not a %s R1CS: %T", Name, ccs)
	}
	return r, nil
}

// P2New is the coordinator's Phase2.Initialize from serialized commons; returns the serialized initial object.
func P2New(ccs constraint.ConstraintSystem, commons []byte) ([]byte, error) {
	r, err := r1csOf(ccs)
	if err != nil {
		return nil, err
	}
	c, err := readCommons(commons)
	if err != nil {
		return nil, err
	}
	var p mpcsetup.Phase2
	p.Initialize(r, c)
	return p2Bytes(&p)
}

func P2Contribute(prev []byte) ([]byte, error) {
	p, err := p2Read(prev)
	if err != nil {
		return nil, err
	}
	p.Contribute()
	return p2Bytes(p)
}

// P2Verify decodes everything from bytes and runs VerifyPhase2.
func P2Verify(ccs constraint.ConstraintSystem, commons, beacon []byte, contribs [][]byte) (groth16.ProvingKey, groth16.VerifyingKey, error) {
	r, err := r1csOf(ccs)
	if err != nil {
		return nil, nil, err
	}
	cm, err := readCommons(commons)
	if err != nil {
		return nil, nil, err
	}
	c := make([]*mpcsetup.Phase2, len(contribs))
	for i := range contribs {
		if c[i], err = p2Read(contribs[i]); err != nil {
			return nil, nil, fmt.Errorf("decode contribution %d: %w", i, err)
		}
	}
	return mpcsetup.VerifyPhase2(r, cm, beacon, c...)
}

type P2Step struct{ prev *mpcsetup.Phase2 }

func NewP2Step(prev []byte) (*P2Step, error) {
	p, err := p2Read(prev)
	if err != nil {
		return nil, err
	}
	return &P2Step{p}, nil
}

func (s *P2Step) Step(next []byte) (error, error) {
	n, err := p2Read(next)
	if err != nil {
		return err, nil
	}
	return nil, s.prev.Verify(n)
}

// ---------------------------------------------------------------- byte layout

type cursor struct {
	b     []byte
	off   int
	slots []api.Slot
	err   error
}

func (c *cursor) point(vec string, idx int, proof bool, group int) {
	if c.err != nil {
		return
	}
	s := api.Slot{Vec: vec, Idx: idx, Proof: proof, Group: group, Off: c.off, Size: G1Size}
	if group == 2 {
		s.Size = G2Size
	}
	if idx >= 0 {
		s.Name = fmt.Sprintf("%s[%d]", vec, idx)
	} else {
		s.Name = vec
	}
	if c.off+s.Size > len(c.b) {
		c.err = fmt.Errorf("layout: %s runs past the end", s.Name)
		return
	}
	if err := checkPoint(group, c.b[c.off:c.off+s.Size]); err != nil {
		c.err = fmt.Errorf("layout: %s does not decode: %w", s.Name, err)
		return
	}
	c.slots = append(c.slots, s)
	c.off += s.Size
}

func (c *cursor) u(n int) uint64 {
	if c.err != nil {
		return 0
	}
	if c.off+n > len(c.b) {
		c.err = errors.New("layout: integer runs past the end")
		return 0
	}
	var v uint64
	for _, x := range c.b[c.off : c.off+n] {
		v = v<<8 | uint64(x)
	}
	c.off += n
	return v
}

func (c *cursor) proof(name string) {
	c.point("proofs."+name+".commitment", -1, true, 1)
	c.point("proofs."+name+".pok", -1, true, 2)
}

func (c *cursor) finish() (*api.Layout, error) {
	if c.err != nil {
		return nil, c.err
	}
	l := &api.Layout{Slots: c.slots, ChallengeOff: c.off, Total: len(c.b)}
	n := int(c.u(1))
	if c.err != nil {
		return nil, c.err
	}
	l.ChallengeLen = n
	if c.off+n != len(c.b) {
		return nil, fmt.Errorf("layout: %d bytes accounted for, contribution has %d", c.off+n, len(c.b))
	}
	return l, nil
}

func checkPoint(group int, b []byte) error {
	if group == 1 {
		var p curve.G1Affine
		_, err := p.SetBytes(b)
		return err
	}
	var p curve.G2Affine
	_, err := p.SetBytes(b)
	return err
}

// P1Layout computes the offset of every group element of a serialized Phase1
// (marshal.go: three update proofs, N, [β]₂, [τⁱ]₁ 1≤i≤2N-2, [τⁱ]₂ 1≤i≤N-1,
// [βτⁱ]₁, [ατⁱ]₁, then the length-prefixed challenge) and checks that every slot
// decodes and that the whole input is accounted for.
func P1Layout(b []byte) (*api.Layout, error) {
	c := &cursor{b: b}
	c.proof("Tau")
	c.proof("Alpha")
	c.proof("Beta")
	N := int(c.u(8))
	if c.err == nil && (N < 1 || N > 1<<20) {
		return nil, fmt.Errorf("layout: implausible N=%d", N)
	}
	c.point("G2.Beta", -1, false, 2)
	for i := 1; i <= 2*N-2; i++ {
		c.point("G1.Tau", i, false, 1)
	}
	for i := 1; i <= N-1; i++ {
		c.point("G2.Tau", i, false, 2)
	}
	for i := 0; i < N; i++ {
		c.point("G1.BetaTau", i, false, 1)
	}
	for i := 0; i < N; i++ {
		c.point("G1.AlphaTau", i, false, 1)
	}
	return c.finish()
}

// P2Layout: uint16 nbCommitments, [δ]₁, PKK (uint32 length + points), Z (same),
// [δ]₂, SigmaCKK[i] (each length-prefixed), Sigma[i], δ proof, σ proofs, challenge.
func P2Layout(b []byte) (*api.Layout, error) {
	c := &cursor{b: b}
	nbC := int(c.u(2))
	c.point("G1.Delta", -1, false, 1)
	n := int(c.u(4))
	if c.err == nil && n > 1<<22 {
		return nil, fmt.Errorf("layout: implausible len(PKK)=%d", n)
	}
	for i := 0; i < n; i++ {
		c.point("G1.PKK", i, false, 1)
	}
	n = int(c.u(4))
	if c.err == nil && n > 1<<22 {
		return nil, fmt.Errorf("layout: implausible len(Z)=%d", n)
	}
	for i := 0; i < n; i++ {
		c.point("G1.Z", i, false, 1)
	}
	c.point("G2.Delta", -1, false, 2)
	for k := 0; k < nbC; k++ {
		n = int(c.u(4))
		if c.err == nil && n > 1<<22 {
			return nil, fmt.Errorf("layout: implausible len(SigmaCKK[%d])=%d", k, n)
		}
		for i := 0; i < n; i++ {
			c.point(fmt.Sprintf("G1.SigmaCKK[%d]", k), i, false, 1)
		}
	}
	for k := 0; k < nbC; k++ {
		c.point("G2.Sigma", k, false, 2)
	}
	c.proof("Delta")
	for k := 0; k < nbC; k++ {
		c.proof(fmt.Sprintf("Sigmas[%d]", k))
	}
	return c.finish()
}

// ---------------------------------------------------------------- points as bytes

func Generator(group int) []byte {
	_, _, g1, g2 := curve.Generators()
	if group == 1 {
		x := g1.Bytes()
		return x[:]
	}
	x := g2.Bytes()
	return x[:]
}

// Scale returns k·P for a compressed point P (k may be negative or zero).
func Scale(group int, p []byte, k *big.Int) ([]byte, error) {
	K := new(big.Int).Set(k)
	neg := K.Sign() < 0
	K.Abs(K)
	if group == 1 {
		var a curve.G1Affine
		if _, err := a.SetBytes(p); err != nil {
			return nil, err
		}
		a.ScalarMultiplication(&a, K)
		if neg {
			a.Neg(&a)
		}
		x := a.Bytes()
		return x[:], nil
	}
	var a curve.G2Affine
	if _, err := a.SetBytes(p); err != nil {
		return nil, err
	}
	a.ScalarMultiplication(&a, K)
	if neg {
		a.Neg(&a)
	}
	x := a.Bytes()
	return x[:], nil
}

// IsInfinity reports whether the compressed point is the identity.
func IsInfinity(group int, p []byte) bool {
	if group == 1 {
		var a curve.G1Affine
		if _, err := a.SetBytes(p); err != nil {
			return false
		}
		return a.IsInfinity()
	}
	var a curve.G2Affine
	if _, err := a.SetBytes(p); err != nil {
		return false
	}
	return a.IsInfinity()
}

// P1VerifyThenReuse: see api.Ops.
func P1VerifyThenReuse(N uint64, beacon []byte, contribs [][]byte, other []byte) ([]byte, []byte, error) {
	c := make([]*mpcsetup.Phase1, len(contribs))
	for i := range contribs {
		var err error
		if c[i], err = p1Read(contribs[i]); err != nil {
			return nil, nil, err
		}
	}
	commons, err := mpcsetup.VerifyPhase1(N, beacon, c...)
	if err != nil {
		return nil, nil, err
	}
	var before, after bytes.Buffer
	if _, err := commons.WriteTo(&before); err != nil {
		return nil, nil, err
	}
	_, _ = c[len(c)-1].ReadFrom(bytes.NewReader(other)) // the next stream the coordinator receives
	if _, err := commons.WriteTo(&after); err != nil {
		return nil, nil, err
	}
	return before.Bytes(), after.Bytes(), nil
}

// Reencode: see api.Ops.
func Reencode(kind string, b []byte, pieces []int) ([]byte, int64, error) {
	r := &api.PieceReader{Data: b, Pieces: pieces}
	var obj interface {
		io.ReaderFrom
		io.WriterTo
	}
	switch kind {
	case "p1":
		obj = new(mpcsetup.Phase1)
	case "p2":
		obj = new(mpcsetup.Phase2)
	default:
		obj = new(mpcsetup.SrsCommons)
	}
	n, err := obj.ReadFrom(r)
	if err != nil {
		return nil, n, err
	}
	var out bytes.Buffer
	if _, err := obj.WriteTo(&out); err != nil {
		return nil, n, err
	}
	return out.Bytes(), n, nil
}

// Ops is this curve's entry for the C18 test.
var Ops = &api.Ops{
	Name: Name, ID: ID, G1Size: G1Size, G2Size: G2Size,
	P1New: P1New, P1Contribute: P1Contribute, P1Verify: P1Verify, P1Layout: P1Layout,
	P1Step: func(prev []byte) (api.Step, error) {
		s, err := NewP1Step(prev)
		if err != nil {
			return nil, err
		}
		return s.Step, nil
	},
	P2New: P2New, P2Contribute: P2Contribute, P2Verify: P2Verify, P2Layout: P2Layout,
	P2Step: func(prev []byte) (api.Step, error) {
		s, err := NewP2Step(prev)
		if err != nil {
			return nil, err
		}
		return s.Step, nil
	},
	Reencode:          Reencode,
	P1VerifyThenReuse: P1VerifyThenReuse,
	Generator:         Generator, Scale: Scale, IsInfinity: IsInfinity, AddTorsion: AddTorsion,
}
