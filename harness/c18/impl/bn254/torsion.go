//go:build verif

package mpc

import (
	"bytes"
	"sync"

	curve "github.com/consensys/gnark-crypto/ecc/bn254"
	"github.com/consensys/gnark-crypto/ecc/bn254/fp"
	"github.com/consensys/gnark-crypto/ecc/bn254/fr"
)

// Points outside the prime-order subgroups: T ≠ 0 on the curve (resp. the twist) whose order
// divides the cofactor, T = [r]Q for a curve point Q.  The scalar multiplication is a plain
// double-and-add: the library's GLV routine is only valid inside the r-torsion subgroup.

// g1Torsion: Q found by trial x-coordinates, b = y²−x³ from the generator (as in
// curves/bn254/torsion.go).  ok=false when the cofactor is 1 (BN curves).
func g1Torsion() (t curve.G1Affine, ok bool) {
	_, _, g, _ := curve.Generators()
	var b, x3 fp.Element
	x3.Square(&g.X).Mul(&x3, &g.X)
	b.Square(&g.Y).Sub(&b, &x3)
	r := fr.Modulus()
	for xi := uint64(1); xi < 64; xi++ {
		var p curve.G1Affine
		p.X.SetUint64(xi)
		var rhs fp.Element
		rhs.Square(&p.X).Mul(&rhs, &p.X).Add(&rhs, &b)
		if rhs.Legendre() != 1 {
			continue
		}
		p.Y.Sqrt(&rhs)
		if !p.IsOnCurve() {
			continue
		}
		var acc, base curve.G1Jac
		base.FromAffine(&p)
		for i := r.BitLen() - 1; i >= 0; i-- {
			acc.DoubleAssign()
			if r.Bit(i) == 1 {
				acc.AddAssign(&base)
			}
		}
		t.FromJacobian(&acc)
		if !t.IsInfinity() && t.IsOnCurve() && !t.IsInSubGroup() {
			return t, true
		}
	}
	return t, false
}

// g2Torsion: the coordinate field of G2 differs per curve (Fp, Fp², Fp⁴), so Q is found through
// the byte encoding instead: the generator's compressed form with its low x byte varied, decoded
// with the subgroup check switched off (the decoder solves y² = x³ + b' on the twist).
func g2Torsion() (t curve.G2Affine, ok bool) {
	_, _, _, g := curve.Generators()
	enc := g.Bytes()
	r := fr.Modulus()
	for d := 1; d < 64; d++ {
		b := enc
		b[len(b)-1] += byte(d)
		var q curve.G2Affine
		if err := curve.NewDecoder(bytes.NewReader(b[:]), curve.NoSubgroupChecks()).Decode(&q); err != nil {
			continue
		}
		if !q.IsOnCurve() || q.IsInfinity() {
			continue
		}
		var acc, base curve.G2Jac
		base.FromAffine(&q)
		for i := r.BitLen() - 1; i >= 0; i-- {
			acc.DoubleAssign()
			if r.Bit(i) == 1 {
				acc.AddAssign(&base)
			}
		}
		t.FromJacobian(&acc)
		if !t.IsInfinity() && t.IsOnCurve() && !t.IsInSubGroup() {
			return t, true
		}
	}
	return t, false
}

var (
	torsionOnce sync.Once
	t1          curve.G1Affine
	t2          curve.G2Affine
	t1ok, t2ok  bool
)

// AddTorsion returns the compressed encoding of P+T for a compressed subgroup point P, T as above.
// ok=false when no such T exists for the group (cofactor 1) or P does not decode.  The result is
// on the curve and outside the prime-order subgroup.
func AddTorsion(group int, p []byte) ([]byte, bool) {
	torsionOnce.Do(func() {
		t1, t1ok = g1Torsion()
		t2, t2ok = g2Torsion()
	})
	if group == 1 {
		if !t1ok {
			return nil, false
		}
		var a curve.G1Affine
		if _, err := a.SetBytes(p); err != nil {
			return nil, false
		}
		var j, tj curve.G1Jac
		j.FromAffine(&a)
		tj.FromAffine(&t1)
		j.AddAssign(&tj)
		a.FromJacobian(&j)
		if !a.IsOnCurve() || a.IsInSubGroup() {
			return nil, false
		}
		x := a.Bytes()
		return x[:], true
	}
	if !t2ok {
		return nil, false
	}
	var a curve.G2Affine
	if _, err := a.SetBytes(p); err != nil {
		return nil, false
	}
	var j, tj curve.G2Jac
	j.FromAffine(&a)
	tj.FromAffine(&t2)
	j.AddAssign(&tj)
	a.FromJacobian(&j)
	if !a.IsOnCurve() || a.IsInSubGroup() {
		return nil, false
	}
	x := a.Bytes()
	return x[:], true
}
