//go:build verif

// Package api is the curve-agnostic face of c18/impl/<curve> (per-curve code
// written once for bn254 and instantiated by c18/gen.sh).
package api

import (
	"io"
	"math/big"

	"github.com/consensys/gnark-crypto/ecc"
	"github.com/consensys/gnark/backend/groth16"
	"github.com/consensys/gnark/constraint"
)

// Slot is one group element inside a serialized contribution.
type Slot struct {
	Name  string // "proofs.Tau.commitment", "G1.Tau[3]", "G1.SigmaCKK[0][2]" …
	Vec   string // name without the trailing index (the vector or field it belongs to)
	Idx   int    // index in Vec, -1 for single fields
	Proof bool   // part of an update proof (vs. parameters)
	Group int    // 1 or 2
	Off   int
	Size  int
}

// Layout of a serialized contribution.
type Layout struct {
	Slots        []Slot
	ChallengeOff int // offset of the one-byte length prefix of Challenge
	ChallengeLen int
	Total        int
}

// Step verifies one candidate "next" contribution against a fixed, already
// decoded previous object: returns (decode error, Verify error).
type Step func(next []byte) (decodeErr, verifyErr error)

// Ops is one curve's MPC-setup entry points; everything is bytes.
type Ops struct {
	Name           string
	ID             ecc.ID
	G1Size, G2Size int

	P1New        func(N uint64) ([]byte, error)
	P1Contribute func(prev []byte) ([]byte, error)
	P1Verify     func(N uint64, beacon []byte, contribs [][]byte) (commons []byte, err error)
	P1Step       func(prev []byte) (Step, error)
	P1Layout     func(b []byte) (*Layout, error)

	P2New        func(ccs constraint.ConstraintSystem, commons []byte) ([]byte, error)
	P2Contribute func(prev []byte) ([]byte, error)
	P2Verify     func(ccs constraint.ConstraintSystem, commons, beacon []byte, contribs [][]byte) (groth16.ProvingKey, groth16.VerifyingKey, error)
	P2Step       func(prev []byte) (Step, error)
	P2Layout     func(b []byte) (*Layout, error)

	// P1VerifyThenReuse runs VerifyPhase1 on the chain, serializes the commons it returned, then lets
	// the coordinator reuse its last decoded contribution object to read another stream, and
	// serializes the same commons value again.
	P1VerifyThenReuse func(N uint64, beacon []byte, contribs [][]byte, other []byte) (before, after []byte, err error)

	// Reencode decodes an object ("p1", "p2" contribution or "commons") from a stream that delivers
	// the bytes in the given piece sizes (cyclically) and writes it again; consumed = bytes the decoder
	// reported.
	Reencode func(kind string, b []byte, pieces []int) (out []byte, reported int64, err error)

	Generator  func(group int) []byte
	Scale      func(group int, p []byte, k *big.Int) ([]byte, error) // k·P, k may be negative or zero
	IsInfinity func(group int, p []byte) bool
	// AddTorsion: P+T with T≠0 of order dividing the cofactor (on the curve, outside the
	// prime-order subgroup); ok=false when the group has cofactor 1.
	AddTorsion func(group int, p []byte) ([]byte, bool)
}

// SetChallenge returns a copy of the contribution with its Challenge field replaced.
func SetChallenge(b []byte, l *Layout, ch []byte) []byte {
	out := append([]byte{}, b[:l.ChallengeOff]...)
	out = append(out, byte(len(ch)))
	return append(out, ch...)
}

// Challenge returns the Challenge field of a serialized contribution.
func Challenge(b []byte, l *Layout) []byte {
	return append([]byte{}, b[l.ChallengeOff+1:l.ChallengeOff+1+l.ChallengeLen]...)
}

// Replace returns a copy of b with slot s overwritten by the compressed point p.
func Replace(b []byte, s Slot, p []byte) []byte {
	if len(p) != s.Size {
		panic("api.Replace: size mismatch")
	}
	out := append([]byte{}, b...)
	copy(out[s.Off:], p)
	return out
}

// At returns the bytes of slot s in b.
func At(b []byte, s Slot) []byte { return b[s.Off : s.Off+s.Size] }

// PieceReader delivers data in pieces of the given sizes (cyclically): an io.Reader may return
// fewer bytes than asked for. It is not an io.ByteReader.
type PieceReader struct {
	Data   []byte
	Pieces []int
	pos, k int
}

func (f *PieceReader) Read(p []byte) (int, error) {
	if f.pos >= len(f.Data) {
		return 0, io.EOF
	}
	if len(p) == 0 {
		return 0, nil
	}
	n := f.Pieces[f.k%len(f.Pieces)]
	f.k++
	if n > len(p) {
		n = len(p)
	}
	if n > len(f.Data)-f.pos {
		n = len(f.Data) - f.pos
	}
	copy(p, f.Data[f.pos:f.pos+n])
	f.pos += n
	return n, nil
}

// Pos is the number of bytes handed out so far.
func (f *PieceReader) Pos() int { return f.pos }
