//go:build verif

package c18

import (
	"github.com/consensys/gnark/verifharness/c18/impl/api"
	bls12377 "github.com/consensys/gnark/verifharness/c18/impl/bls12-377"
	bls12381 "github.com/consensys/gnark/verifharness/c18/impl/bls12-381"
	bls24315 "github.com/consensys/gnark/verifharness/c18/impl/bls24-315"
	bls24317 "github.com/consensys/gnark/verifharness/c18/impl/bls24-317"
	bn254 "github.com/consensys/gnark/verifharness/c18/impl/bn254"
	bw6633 "github.com/consensys/gnark/verifharness/c18/impl/bw6-633"
	bw6761 "github.com/consensys/gnark/verifharness/c18/impl/bw6-761"
)

// allCurves lists the seven instantiations, cheapest first.
var allCurves = []*api.Ops{bn254.Ops, bls12377.Ops, bls12381.Ops, bls24315.Ops, bls24317.Ops, bw6633.Ops, bw6761.Ops}

func tierCurves(quick bool) []*api.Ops {
	if quick {
		return []*api.Ops{bn254.Ops, bls12377.Ops}
	}
	return allCurves
}
