//go:build verif

package c18

import (
	"fmt"
	"testing"
	"time"

	"github.com/consensys/gnark/frontend"
	"github.com/consensys/gnark/frontend/cs/r1cs"
	"github.com/consensys/gnark/verifharness/c18/impl/api"
	"github.com/consensys/gnark/verifharness/internal/circuits"
)

func TestProbe(t *testing.T) {
	for _, o := range allCurves {
		for _, muls := range []int{0, 50} {
			spec := &circuits.Spec{NPub: 2, NSec: 2, Muls: muls, Commits: []circuits.CommitSpec{{Sec: []int{0, 1}}, {Pub: []int{1}, Sec: []int{1}, Prev: []int{0}}}}
			ccs, err := frontend.Compile(o.ID.ScalarField(), r1cs.NewBuilder, spec.New())
			if err != nil {
				t.Fatal(err)
			}
			N := uint64(1)
			for int(N) < ccs.GetNbConstraints() {
				N *= 2
			}
			t0 := time.Now()
			p, _ := o.P1New(N)
			var chain [][]byte
			for i := 0; i < 3; i++ {
				p, err = o.P1Contribute(p)
				if err != nil {
					t.Fatal(err)
				}
				chain = append(chain, p)
			}
			t1 := time.Now()
			commons, err := o.P1Verify(N, []byte("b"), chain)
			if err != nil {
				t.Fatal(err)
			}
			t2 := time.Now()
			l, err := o.P1Layout(chain[2])
			if err != nil {
				t.Fatal(err)
			}
			st, _ := o.P1Step(chain[1])
			t3 := time.Now()
			for i := 0; i < 10; i++ {
				s := l.Slots[(i*37)%len(l.Slots)]
				e := api.Replace(chain[2], s, o.Generator(s.Group))
				de, ve := st(e)
				if de != nil || ve == nil {
					t.Fatalf("edit %s: %v %v", s.Name, de, ve)
				}
			}
			t4 := time.Now()
			q, err := o.P2New(ccs, commons)
			if err != nil {
				t.Fatal(err)
			}
			t5 := time.Now()
			var chain2 [][]byte
			for i := 0; i < 3; i++ {
				q, err = o.P2Contribute(q)
				if err != nil {
					t.Fatal(err)
				}
				chain2 = append(chain2, q)
			}
			t6 := time.Now()
			_, _, err = o.P2Verify(ccs, commons, []byte("c"), chain2)
			if err != nil {
				t.Fatal(err)
			}
			t7 := time.Now()
			l2, err := o.P2Layout(chain2[2])
			if err != nil {
				t.Fatal(err)
			}
			st2, _ := o.P2Step(chain2[1])
			t8 := time.Now()
			for i := 0; i < 10; i++ {
				s := l2.Slots[(i*37)%len(l2.Slots)]
				e := api.Replace(chain2[2], s, o.Generator(s.Group))
				de, ve := st2(e)
				if de != nil || ve == nil {
					t.Fatalf("edit %s: %v %v", s.Name, de, ve)
				}
			}
			t9 := time.Now()
			fmt.Printf("%s N=%d nbC=%d p1slots=%d p2slots=%d | p1 contrib x3 %v verify %v step-edit/10 %v | p2 init %v contrib x3 %v verify %v step-edit/10 %v\n",
				o.Name, N, ccs.GetNbConstraints(), len(l.Slots), len(l2.Slots), t1.Sub(t0), t2.Sub(t1), t4.Sub(t3)/10, t5.Sub(t4), t6.Sub(t5), t7.Sub(t6), t9.Sub(t8)/10)
		}
	}
}
