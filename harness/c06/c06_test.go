//go:build verif

// C06 — Solver returns only satisfying assignments; fails only on a violated constraint.
// Invariant-at-a-hook monitor: at the end of every successful Solve (also the
// ones inside Prove) the PostSolve hook hands the complete solution object to
// the independent evaluator (package c06mon). The workload drives every
// blueprint kind, systems restored from bytes, every task count and the
// level-parallel workers with delays injected at the Yield points.
package c06

import (
	"bytes"
	"crypto/sha256"
	"fmt"
	"io"
	"math/big"
	"runtime"
	"strings"
	"sync/atomic"
	"testing"
	"time"

	"github.com/consensys/gnark-crypto/ecc"
	"github.com/consensys/gnark/backend/groth16"
	"github.com/consensys/gnark/backend/plonk"
	"github.com/consensys/gnark/backend/witness"
	"github.com/consensys/gnark/constraint"
	"github.com/consensys/gnark/constraint/solver"
	"github.com/consensys/gnark/frontend"
	"github.com/consensys/gnark/frontend/cs/r1cs"
	"github.com/consensys/gnark/frontend/cs/scs"
	"github.com/consensys/gnark/internal/smallfields/tinyfield"
	"github.com/consensys/gnark/test/unsafekzg"

	"github.com/consensys/gnark/verifharness/internal/adversary"
	"github.com/consensys/gnark/verifharness/internal/c06mon"
	"github.com/consensys/gnark/verifharness/internal/hooks"
	"github.com/consensys/gnark/verifharness/internal/progs"
	"github.com/consensys/gnark/verifharness/internal/scen"
	"github.com/consensys/gnark/verifharness/internal/vcore"
)

var taskCounts = []int{1, 2, 3, 7, 16, 64, 512}

func solHash(sol any) string {
	var b bytes.Buffer
	sol.(io.WriterTo).WriteTo(&b)
	return fmt.Sprintf("%x", sha256.Sum256(b.Bytes()))
}

func TestC06(t *testing.T) {
	r := vcore.Start(t, "C06")
	mon := c06mon.Install(r, 1)
	defer mon.Uninstall()

	// count the solver's Yield points: solve.task = a task executed by a pool worker (parallel branch)
	var nTask, nLevel atomic.Int64
	var yrng atomic.Uint64
	yrng.Store(uint64(r.Seed) * 104729)
	hooks.OnYield(func(field, point string) {
		switch point {
		case "solve.task":
			nTask.Add(1)
		case "solve.level":
			nLevel.Add(1)
		}
		x := yrng.Add(0x9e3779b97f4a7c15)
		x ^= x >> 31
		switch x % 16 {
		case 0, 1:
			runtime.Gosched()
		case 2:
			time.Sleep(time.Duration(x>>40%150) * time.Microsecond)
		}
	})
	defer hooks.OnYield(nil)

	scenarioSystems(r)
	programSystems(r)
	insideProve(r)

	r.Count("yield.level-boundaries", int(nLevel.Load()))
	r.Count("yield.tasks-run-by-pool-workers(parallel-branch)", int(nTask.Load()))
	r.Require("c06.solutions-revalidated.r1cs", 100)
	r.Require("c06.solutions-revalidated.sparse", 100)
	r.Require("yield.tasks-run-by-pool-workers(parallel-branch)", 20)
	r.Require("solve.failed(expected)", 20)
	r.Require("restored-from-bytes.solves", 10)
	r.Require("inside-prove.solutions-seen", 4)
	r.Finish("exploration",
		"every solution produced by the workload is re-validated by the independent evaluator at the PostSolve hook (rows/gates satisfied, witness preserved, A,B,C = row evaluations, L,R,O = public rows / gate wires / wire-0 padding): scenario systems (lookup table with witness-dependent entries + range checks, wide levels + hints, arithmetic with commitments) and random programs over tinyfield/bn254/bls12-377/bw6-761 on both builders, original and restored from bytes, task counts 1..512 with PRNG delays at level and task boundaries, and the solutions seen inside Groth16/PLONK Prove. Failure side: a witness the reference says satisfiable must solve; a solve that fails must be for a witness the reference says violates a constraint. distinct = (system, witness, tasks, restored?)",
		[]string{"commitment hints replaced by a hash of their inputs and the R1CS mask fixed for plain Solve calls", "interleavings of the level-parallel workers are sampled"})
}

// solveAll solves every witness with every task count on sys, and on a copy restored from bytes.
func solveAll(r *vcore.Run, label string, field *big.Int, sys constraint.ConstraintSystem, newCS func() constraint.ConstraintSystem, ws []witness.Witness, valid []bool) {
	var restored constraint.ConstraintSystem
	var buf bytes.Buffer
	if _, err := sys.WriteTo(&buf); err == nil {
		restored = newCS()
		if _, err := restored.ReadFrom(bytes.NewReader(buf.Bytes())); err != nil {
			r.Violation("restore-from-bytes-failed", err.Error(), map[string]any{"system": label})
			restored = nil
		}
	}
	for wi, w := range ws {
		var first string
		for ti, tc := range taskCounts {
			if r.Quick() && ti%2 == 1 && wi%2 == 1 {
				continue
			}
			for _, which := range []string{"original", "restored"} {
				s := sys
				if which == "restored" {
					if restored == nil || ti%3 != 0 {
						continue
					}
					s = restored
				}
				key := fmt.Sprintf("%s|w%d|tasks%d|%s", label, wi, tc, which)
				r.Eval(key, true)
				var sol any
				var err error
				var pan any
				var stack string
				done := make(chan struct{})
				go func() {
					defer close(done)
					pan, stack = vcore.Catch(func() {
						sol, err = s.Solve(w, solver.WithNbTasks(tc), adversary.CommitmentAsHash(), adversary.FixedMask())
					})
				}()
				select {
				case <-done:
				case <-time.After(90 * time.Second): // these solves take milliseconds; the goroutine is abandoned
					r.Count("solve.DID-NOT-RETURN", 1)
					r.Violation("solve-does-not-return/"+sig(label), "Solve did not return within 90 s (the same system solves other witnesses in milliseconds)",
						map[string]any{"system": label, "witness": wi, "tasks": tc, "which": which})
					return // one hang per system is enough; the abandoned goroutine keeps its workers
				}
				if pan != nil {
					r.Violation("solve-panic/"+sig(label), fmt.Sprintf("%v\n%s", pan, stack), map[string]any{"system": label, "witness": wi, "tasks": tc, "which": which})
					continue
				}
				if which == "restored" {
					r.Count("restored-from-bytes.solves", 1)
				}
				if valid[wi] {
					if err != nil {
						r.Count("solve.FAILED-on-satisfying-witness", 1)
						r.Violation("fails-without-violated-constraint/"+sig(label), "the witness satisfies the circuit (reference) but Solve failed: "+firstLine(err.Error()),
							map[string]any{"system": label, "witness": wi, "tasks": tc, "which": which})
						continue
					}
					r.Count("solve.succeeded(expected)", 1)
					h := solHash(sol)
					if first == "" {
						first = h
						r.SampleClass(sig(label), map[string]any{"system": label, "witness": wi, "tasks": tc, "solution_sha256": h})
					} else if h != first {
						r.Violation("solution-depends-on-tasks-or-restoration/"+sig(label), "the solution differs between task counts / original and restored system",
							map[string]any{"system": label, "witness": wi, "tasks": tc, "which": which, "first": first, "now": h})
					}
				} else {
					if err == nil {
						r.Count("solve.SUCCEEDED-on-violating-witness", 1)
						r.Violation("accepts-violating-witness/"+sig(label), "Solve succeeded on a witness the reference says violates the circuit", map[string]any{"system": label, "witness": wi, "tasks": tc})
						continue
					}
					r.Count("solve.failed(expected)", 1)
				}
			}
		}
	}
}

func sig(label string) string {
	if i := strings.IndexAny(label, "{#"); i >= 0 {
		return label[:i]
	}
	return label
}

func firstLine(s string) string {
	if i := strings.IndexByte(s, '\n'); i >= 0 {
		return s[:i]
	}
	return s
}

func scenarioSystems(r *vcore.Run) {
	curves := []ecc.ID{ecc.BN254}
	if r.Thorough() {
		curves = []ecc.ID{ecc.BN254, ecc.BLS12_377, ecc.BW6_761}
	}
	type job struct {
		c  ecc.ID
		si int
	}
	var jobs []job
	for _, c := range curves {
		for si := range scen.Scenarios() {
			jobs = append(jobs, job{c, si})
		}
	}
	vcore.Parallel(len(jobs), 6, func(i int) {
		j := jobs[i]
		sc := scen.Scenarios()[j.si]
		field := j.c.ScalarField()
		rng := r.Rand(fmt.Sprintf("scen/%s/%d", j.c, j.si))
		wits := sc.Witnesses(rng, field, r.Pick(6, 16))
		var ws []witness.Witness
		var valid []bool
		for _, w := range wits {
			fw, err := frontend.NewWitness(w.Assign, field)
			if err != nil {
				r.Inconclusive("witness")
				return
			}
			ws = append(ws, fw)
			valid = append(valid, w.Valid)
		}
		for _, b := range []string{"r1cs", "scs"} {
			var nb frontend.NewBuilder = r1cs.NewBuilder
			newCS := func() constraint.ConstraintSystem { return groth16.NewCS(j.c) }
			if b == "scs" {
				nb = scs.NewBuilder
				newCS = func() constraint.ConstraintSystem { return plonk.NewCS(j.c) }
			}
			sys, err := frontend.Compile(field, nb, sc.Circuit())
			if err != nil {
				r.Inconclusive("compile:" + err.Error())
				continue
			}
			r.Count("systems", 1)
			solveAll(r, fmt.Sprintf("%s/%s/%s", sc.Name, j.c, b), field, sys, newCS, ws, valid)
		}
	})
}

func programSystems(r *vcore.Run) {
	fields := []struct {
		name string
		mod  *big.Int
	}{{"bn254", ecc.BN254.ScalarField()}, {"bls12-377", ecc.BLS12_377.ScalarField()}, {"bw6-761", ecc.BW6_761.ScalarField()}, {"tinyfield", tinyfield.Modulus()}}
	n := r.Pick(900, 3000)
	vcore.Parallel(n, 12, func(i int) {
		rng := r.Rand(fmt.Sprintf("prog/%d", i))
		f := fields[i%len(fields)]
		nIn := 1 + rng.IntN(4)
		// long programs: levels wider than 50 instructions happen with many independent instructions
		nInstr := 4 + rng.IntN(40)
		if i%4 == 0 {
			nInstr = 20 + rng.IntN(r.Pick(120, 220))
		}
		prog := progs.Random(rng, nIn, nInstr, f.mod.BitLen())
		for _, b := range []string{"r1cs", "scs"} {
			c, err := progs.Compile(prog, nil, f.mod, b)
			if err != nil {
				continue
			}
			r.Count("systems", 1)
			for k := 0; k < r.Pick(3, 6); k++ {
				in := make([]*big.Int, nIn)
				for q := range in {
					in[q] = progs.EdgeValue(rng, f.mod)
				}
				ref := prog.Eval(in, f.mod)
				tc := taskCounts[(i+k)%len(taskCounts)]
				r.Eval(fmt.Sprintf("prog%d|%s|%s|%d|tasks%d", i, f.name, b, k, tc), true)
				_, err := c.SolveTimeout(90*time.Second, in, prog.Outs(ref), solver.WithNbTasks(tc))
				switch {
				case err != nil && strings.HasPrefix(err.Error(), "TIMEOUT"):
					r.Count("solve.DID-NOT-RETURN", 1)
					r.Violation("solve-does-not-return/program/"+b, err.Error(), map[string]any{"program": prog.String(), "field": f.name, "tasks": tc, "inputs": fmt.Sprint(in), "reference_sat": ref.Sat})
					return
				case err != nil && strings.HasPrefix(err.Error(), "PANIC"):
					r.Violation("solve-panic/program/"+b, err.Error(), map[string]any{"program": prog.String(), "field": f.name, "tasks": tc})
				case ref.Sat && err != nil:
					r.Count("solve.FAILED-on-satisfying-witness", 1)
					r.Violation("fails-without-violated-constraint/program/"+b, "reference says satisfiable, Solve says: "+firstLine(err.Error()),
						map[string]any{"program": prog.String(), "field": f.name, "tasks": tc, "inputs": fmt.Sprint(in)})
				case ref.Sat:
					r.Count("solve.succeeded(expected)", 1)
				case err == nil:
					r.Violation("accepts-violating-witness/program/"+b, "reference says unsatisfiable ("+ref.Reason+"), Solve accepted", map[string]any{"program": prog.String(), "field": f.name, "inputs": fmt.Sprint(in)})
				default:
					r.Count("solve.failed(expected)", 1)
				}
			}
		}
	})
}

// insideProve: the solutions the provers use are seen (and re-validated) by the same hook.
func insideProve(r *vcore.Run) {
	before := r.Counter("c06.solutions-revalidated")
	for si, sc := range scen.Scenarios() {
		field := ecc.BN254.ScalarField()
		rng := r.Rand(fmt.Sprintf("prove/%d", si))
		wits := sc.Witnesses(rng, field, 4)
		r1, err := frontend.Compile(field, r1cs.NewBuilder, sc.Circuit())
		if err != nil {
			continue
		}
		sp, err := frontend.Compile(field, scs.NewBuilder, sc.Circuit())
		if err != nil {
			continue
		}
		gpk, gvk, err := groth16.Setup(r1)
		if err != nil {
			continue
		}
		srs, srsL, err := unsafekzg.NewSRS(sp)
		if err != nil {
			continue
		}
		ppk, pvk, err := plonk.Setup(sp, srs, srsL)
		if err != nil {
			continue
		}
		for wi, w := range wits {
			if !w.Valid {
				continue
			}
			fw, _ := frontend.NewWitness(w.Assign, field)
			pw, _ := fw.Public()
			r.Eval(fmt.Sprintf("prove|%s|w%d", sc.Name, wi), true)
			if p, err := groth16.Prove(r1, gpk, fw); err == nil {
				if groth16.Verify(p, gvk, pw) == nil {
					r.Count("inside-prove.groth16-proofs-verified", 1)
				}
			}
			if p, err := plonk.Prove(sp, ppk, fw); err == nil {
				if plonk.Verify(p, pvk, pw) == nil {
					r.Count("inside-prove.plonk-proofs-verified", 1)
				}
			}
		}
	}
	r.Count("inside-prove.solutions-seen", int(r.Counter("c06.solutions-revalidated")-before))
}
