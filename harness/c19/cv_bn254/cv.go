//go:build verif

// Package cv holds the per-curve typed pieces of the C19 monitor (custom field
// gates for the native GKR prover, Fiat-Shamir hash builders, the GkrInfo
// redirect with wrappers around the genuine solving / proving hints, and a
// dishonest prover that proves from an inconsistent assignment).
//
// cv_bn254/cv.go is the source; cv_bls12377/cv.go is produced from it by
// c19/gen.sh (textual substitution, exactly like gnark's own generator).
package cv

import (
	"errors"
	"fmt"
	"hash"
	"math/big"
	"sync"

	"github.com/consensys/gnark-crypto/ecc"
	"github.com/consensys/gnark-crypto/ecc/bn254/fr"
	"github.com/consensys/gnark-crypto/ecc/bn254/fr/mimc"
	"github.com/consensys/gnark-crypto/ecc/bn254/fr/polynomial"
	fiatshamir "github.com/consensys/gnark-crypto/fiat-shamir"
	"github.com/consensys/gnark/constraint"
	cs "github.com/consensys/gnark/constraint/bn254"
	"github.com/consensys/gnark/constraint/solver"
	gkr "github.com/consensys/gnark/internal/gkr/bn254"
)

// ID is the curve this copy of the package is typed for.
const ID = ecc.BN254

func Modulus() *big.Int { return fr.Modulus() }

// ---------------------------------------------------------------- gates

var gatesOnce sync.Once
var gatesErr error

// RegisterGates registers the field versions of the monitor's custom gates with
// the native prover's registry (internal/gkr/<curve>).  The frontend versions are
// registered by the test package in std/gkr.  Some gates leave degree / solvable
// variable to be discovered by RegisterGate, some state them and have them verified.
func RegisterGates() error {
	gatesOnce.Do(func() {
		reg := func(name string, f gkr.GateFunction, nbIn int, opts ...gkr.RegisterGateOption) {
			if err := gkr.RegisterGate(gkr.GateName(name), f, nbIn, opts...); err != nil && gatesErr == nil {
				gatesErr = fmt.Errorf("%s: %w", name, err)
			}
		}
		// x*y + z
		reg("c19_fma", func(x ...fr.Element) (r fr.Element) {
			r.Mul(&x[0], &x[1])
			r.Add(&r, &x[2])
			return
		}, 3)
		// x^3
		reg("c19_cube", func(x ...fr.Element) (r fr.Element) {
			r.Square(&x[0])
			r.Mul(&r, &x[0])
			return
		}, 1, gkr.WithDegree(3), gkr.WithNoSolvableVar())
		// x^2*y^2 + x
		reg("c19_quart", func(x ...fr.Element) (r fr.Element) {
			r.Mul(&x[0], &x[1])
			r.Square(&r)
			r.Add(&r, &x[0])
			return
		}, 2, gkr.WithDegree(4), gkr.WithNoSolvableVar())
		// 2x + 3y - z + 7
		reg("c19_aff3", func(x ...fr.Element) (r fr.Element) {
			var t fr.Element
			r.Double(&x[0])
			t.Double(&x[1])
			t.Add(&t, &x[1])
			r.Add(&r, &t)
			r.Sub(&r, &x[2])
			t.SetUint64(7)
			r.Add(&r, &t)
			return
		}, 3)
		// x (second input ignored)
		reg("c19_first", func(x ...fr.Element) fr.Element {
			return x[0]
		}, 2, gkr.WithDegree(1), gkr.WithSolvableVar(0))
		// x^2 * y
		reg("c19_x2y", func(x ...fr.Element) (r fr.Element) {
			r.Square(&x[0])
			r.Mul(&r, &x[1])
			return
		}, 2, gkr.WithDegree(3), gkr.WithNoSolvableVar())
	})
	return gatesErr
}

// GateInfo returns what the native registry recorded for a gate.
func GateInfo(name string) (nbIn, degree, solvableVar int, ok bool) {
	g := gkr.GetGate(gkr.GateName(name))
	if g == nil {
		return 0, 0, 0, false
	}
	return g.NbIn(), g.Degree(), g.SolvableVar(), true
}

// ---------------------------------------------------------------- hashes

// RegisterHashes registers the native Fiat-Shamir hash builders the monitor
// uses: "mimc" (gnark-crypto's MiMC over this field) and constant pseudo-hashes
// under the given names (test hashes: the challenge is the constant).
func RegisterHashes(consts map[string]int) {
	cs.RegisterHashBuilder("mimc", func() hash.Hash { return mimc.NewMiMC() })
	for name, c := range consts {
		c := c
		cs.RegisterHashBuilder(name, func() hash.Hash { return cs.ConstPseudoHash(c) })
	}
}

// ---------------------------------------------------------------- redirect

// Unused hint ids the private copy's GkrInfo is pointed at, so that the
// overrides the solver appends after the caller's options hit nothing.
const (
	deadSolveID solver.HintID = 0x7fc19001
	deadProveID solver.HintID = 0x7fc19002
)

// Redirect returns a private shallow copy of the compiled system whose GkrInfo
// hint ids were redirected, together with the genuine GkrInfo.
func Redirect(ccs constraint.ConstraintSystem) (constraint.ConstraintSystem, constraint.GkrInfo, error) {
	sys, ok := ccs.(*cs.R1CS) // R1CS and SparseR1CS are the same Go type
	if !ok {
		return nil, constraint.GkrInfo{}, fmt.Errorf("not a %s system: %T", ID, ccs)
	}
	if !sys.GkrInfo.Is() {
		return nil, constraint.GkrInfo{}, errors.New("system has no GKR sub-circuit")
	}
	if solver.GetRegisteredHint(deadSolveID) != nil || solver.GetRegisteredHint(deadProveID) != nil {
		return nil, constraint.GkrInfo{}, errors.New("redirect ids are taken")
	}
	info := sys.GkrInfo
	cp := *sys
	cp.GkrInfo.SolveHintID = deadSolveID
	cp.GkrInfo.ProveHintID = deadProveID
	return &cp, info, nil
}

// Info returns the GkrInfo stored in a compiled system.
func Info(ccs constraint.ConstraintSystem) (constraint.GkrInfo, bool) {
	sys, ok := ccs.(*cs.R1CS)
	if !ok {
		return constraint.GkrInfo{}, false
	}
	return sys.GkrInfo, sys.GkrInfo.Is()
}

// Hooks says how the dishonest prover deviates.  All nil / false = honest.
type Hooks struct {
	// MutateIns receives a private copy of the solving hint's inputs and may
	// alter it before the genuine solving hint runs: the native solver and
	// prover then work, consistently, on inputs the circuit never imported.
	MutateIns func(ins []*big.Int)
	// MutateOuts alters the genuine solving hint's outputs in place.
	MutateOuts func(outs []*big.Int)
	// OwnProof: instead of the genuine proving hint, run the native prover on
	// the complete assignment whose output wires were overwritten with the
	// (altered) outputs handed to the circuit — the best proof available for a
	// wrong output.
	OwnProof bool
	// MutateProof alters the serialized proof in place.
	MutateProof func(proof []*big.Int)
}

// Trace is what the wrappers saw during one Solve.
type Trace struct {
	mu           sync.Mutex
	SolveCalls   int
	ProveCalls   int
	SolveIns     []*big.Int
	UsedIns      []*big.Int // what the native solver was actually run on
	GenuineOuts  []*big.Int
	GivenOuts    []*big.Int
	GenuineProof []*big.Int // nil when the genuine prover was not run or failed
	GivenProof   []*big.Int
	OwnProofErr  error
	EvalMismatch bool // the adversary's own evaluation disagreed with the genuine solving hint (adversary unusable)
}

func clone(v []*big.Int) []*big.Int {
	o := make([]*big.Int, len(v))
	for i := range v {
		o[i] = new(big.Int).Set(v[i])
	}
	return o
}

// Options returns solver options that install wrappers around the genuine
// GkrSolveHint / GkrProveHint on the hint ids the instructions of the compiled
// circuit refer to.  Use with the system returned by Redirect; one call per Solve.
func Options(info constraint.GkrInfo, h *Hooks, tr *Trace) []solver.Option {
	var data cs.GkrSolvingData
	if h == nil {
		h = &Hooks{}
	}
	var liedIns []*big.Int
	solve := func(m *big.Int, ins, outs []*big.Int) error {
		tr.mu.Lock()
		defer tr.mu.Unlock()
		tr.SolveCalls++
		tr.SolveIns = clone(ins)
		use := ins
		if h.MutateIns != nil {
			use = clone(ins)
			h.MutateIns(use)
		}
		liedIns = clone(use) // the solver reuses the ins buffer after the hint returns
		tr.UsedIns = liedIns
		if err := cs.GkrSolveHint(info, &data)(m, use, outs); err != nil {
			return err
		}
		if h.MutateIns != nil {
			// what an honest prover would have answered
			var d2 cs.GkrSolvingData
			g := make([]*big.Int, len(outs))
			for i := range g {
				g[i] = new(big.Int)
			}
			if err := cs.GkrSolveHint(info, &d2)(m, ins, g); err != nil {
				return err
			}
			tr.GenuineOuts = g
		} else {
			tr.GenuineOuts = clone(outs)
		}
		if h.MutateOuts != nil {
			h.MutateOuts(outs)
			for i := range outs {
				outs[i].Mod(outs[i], m)
			}
		}
		tr.GivenOuts = clone(outs)
		return nil
	}
	prove := func(m *big.Int, ins, outs []*big.Int) error {
		tr.mu.Lock()
		defer tr.mu.Unlock()
		tr.ProveCalls++
		if tr.SolveCalls == 0 {
			return errors.New("c19: proving hint called before solving hint")
		}
		g := make([]*big.Int, len(outs))
		for i := range g {
			g[i] = new(big.Int)
		}
		if err := cs.GkrProveHint(info.HashName, &data)(m, ins, g); err != nil {
			if !h.OwnProof {
				return err
			}
		} else if h.MutateIns == nil {
			tr.GenuineProof = g
		}
		if h.OwnProof {
			if err := ownProof(info, liedIns, tr.GenuineOuts, tr.GivenOuts, ins, outs, tr); err != nil {
				tr.OwnProofErr = err
				return err
			}
		} else {
			for i := range outs {
				outs[i].Set(g[i])
			}
		}
		if h.MutateProof != nil {
			h.MutateProof(outs)
			for i := range outs {
				outs[i].Mod(outs[i], m)
			}
		}
		tr.GivenProof = clone(outs)
		return nil
	}
	return []solver.Option{
		solver.OverrideHint(info.SolveHintID, solve),
		solver.OverrideHint(info.ProveHintID, prove),
	}
}

// evalInfo is the adversary's own evaluation of the compiled GKR circuit
// (wire first, instance second, in the order of the solving hint).
func evalInfo(info constraint.GkrInfo, ins []*big.Int) ([][]fr.Element, error) {
	c := info.Circuit
	n := info.NbInstances
	offsets := info.AssignmentOffsets()
	a := make([][]fr.Element, len(c))
	for i := range a {
		a[i] = make([]fr.Element, n)
	}
	depHead := make([]int, len(c))
	buf := make([]fr.Element, info.MaxNIns+1)
	for inst := 0; inst < n; inst++ {
		for wI, w := range c {
			if w.IsInput() {
				if depHead[wI] < len(w.Dependencies) && w.Dependencies[depHead[wI]].InputInstance == inst {
					d := w.Dependencies[depHead[wI]]
					a[wI][inst] = a[d.OutputWire][d.OutputInstance]
					depHead[wI]++
				} else {
					k := offsets[wI] + inst - depHead[wI]
					if k >= len(ins) {
						return nil, errors.New("c19: input index out of range")
					}
					a[wI][inst].SetBigInt(ins[k])
				}
				continue
			}
			g := gkr.GetGate(gkr.GateName(w.Gate))
			if g == nil {
				return nil, fmt.Errorf("c19: gate %q not found", w.Gate)
			}
			for j, in := range w.Inputs {
				buf[j] = a[in][inst]
			}
			a[wI][inst] = g.Evaluate(buf[:len(w.Inputs)]...)
		}
	}
	return a, nil
}

func ownProof(info constraint.GkrInfo, solveIns, genuineOuts, givenOuts, proveIns, outs []*big.Int, tr *Trace) error {
	a, err := evalInfo(info, solveIns)
	if err != nil {
		return err
	}
	// sanity: the adversary's evaluation must reproduce the genuine outputs, then the lied outputs are patched in
	k := 0
	for wI, w := range info.Circuit {
		if !w.IsOutput() {
			continue
		}
		for inst := range a[wI] {
			var g big.Int
			a[wI][inst].BigInt(&g)
			if k >= len(genuineOuts) || g.Cmp(genuineOuts[k]) != 0 {
				tr.EvalMismatch = true
			}
			a[wI][inst].SetBigInt(givenOuts[k])
			k++
		}
	}
	circuit := make(gkr.Circuit, len(info.Circuit))
	for i, w := range info.Circuit {
		if !w.IsInput() {
			circuit[i].Gate = gkr.GetGate(gkr.GateName(w.Gate))
		}
		circuit[i].Inputs = make([]*gkr.Wire, len(w.Inputs))
		for j, in := range w.Inputs {
			circuit[i].Inputs[j] = &circuit[in]
		}
	}
	assignment := make(gkr.WireAssignment, len(circuit))
	for i := range circuit {
		assignment[&circuit[i]] = polynomial.MultiLin(a[i])
	}
	insBytes := make([][]byte, 0, len(proveIns))
	for _, v := range proveIns[1:] {
		b := make([]byte, fr.Bytes)
		v.FillBytes(b)
		insBytes = append(insBytes, b)
	}
	hsh, err := cs.GetHashBuilder(info.HashName)
	if err != nil {
		return err
	}
	proof, err := gkr.Prove(circuit, assignment, fiatshamir.WithHash(hsh(), insBytes...))
	if err != nil {
		return err
	}
	return proof.SerializeToBigInts(outs)
}

// NativeVerify runs the native (out of circuit) GKR verifier of internal/gkr on
// a complete assignment produced by evalInfo and a proof produced by the native
// prover over it: an independent cross-check of the adversary's plumbing.
func NativeRoundTrip(info constraint.GkrInfo, solveIns []*big.Int, base [][]byte) error {
	a, err := evalInfo(info, solveIns)
	if err != nil {
		return err
	}
	circuit := make(gkr.Circuit, len(info.Circuit))
	for i, w := range info.Circuit {
		if !w.IsInput() {
			circuit[i].Gate = gkr.GetGate(gkr.GateName(w.Gate))
		}
		circuit[i].Inputs = make([]*gkr.Wire, len(w.Inputs))
		for j, in := range w.Inputs {
			circuit[i].Inputs[j] = &circuit[in]
		}
	}
	assignment := make(gkr.WireAssignment, len(circuit))
	for i := range circuit {
		assignment[&circuit[i]] = polynomial.MultiLin(a[i])
	}
	hsh, err := cs.GetHashBuilder(info.HashName)
	if err != nil {
		return err
	}
	proof, err := gkr.Prove(circuit, assignment, fiatshamir.WithHash(hsh(), base...))
	if err != nil {
		return err
	}
	return gkr.Verify(circuit, assignment, proof, fiatshamir.WithHash(hsh(), base...))
}
