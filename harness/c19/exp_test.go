//go:build verif

package c19

import (
	"fmt"
	"hash"
	"testing"

	"github.com/consensys/gnark-crypto/ecc"
	gcHash "github.com/consensys/gnark-crypto/hash"
	"github.com/consensys/gnark/constraint"
	csbn254 "github.com/consensys/gnark/constraint/bn254"
	"github.com/consensys/gnark/frontend"
	"github.com/consensys/gnark/frontend/cs/r1cs"
	"github.com/consensys/gnark/frontend/cs/scs"
	"github.com/consensys/gnark/std/gkr"
	stdHash "github.com/consensys/gnark/std/hash"
	"github.com/consensys/gnark/std/hash/mimc"
)

type expCircuit struct {
	X, Y []frontend.Variable
	deps [][2]int // input instance (of x), output instance (of z)
	dbg  bool
}

func (c *expCircuit) Define(api frontend.API) error {
	g := gkr.NewApi()
	X := make([]frontend.Variable, len(c.X))
	copy(X, c.X)
	for _, d := range c.deps {
		X[d[0]] = nil
	}
	x, err := g.Import(X)
	if err != nil {
		return err
	}
	y, err := g.Import(append([]frontend.Variable{}, c.Y...))
	if err != nil {
		return err
	}
	z := g.Mul(x, y)
	for _, d := range c.deps {
		g.Series(x, z, d[0], d[1])
	}
	sol, err := g.Solve(api)
	if err != nil {
		return err
	}
	Z := sol.Export(z)
	// direct: x[0] = z[2]
	dir := make([]frontend.Variable, len(Z))
	done := make([]bool, len(Z))
	for pass := 0; pass < len(Z); pass++ {
		for i := range Z {
			if done[i] {
				continue
			}
			xv := c.X[i]
			ok := true
			for _, d := range c.deps {
				if d[0] == i {
					if !done[d[1]] {
						ok = false
					} else {
						xv = dir[d[1]]
					}
				}
			}
			if ok {
				dir[i] = api.Mul(xv, c.Y[i])
				done[i] = true
			}
		}
	}
	if c.dbg {
		for i := range Z {
			api.AssertIsEqual(Z[i], dir[i])
		}
	}
	ch, err := api.(frontend.Committer).Commit(Z...)
	if err != nil {
		return err
	}
	return sol.Verify("mimc", ch)
}

func TestExp(t *testing.T) {
	csbn254.RegisterHashBuilder("mimc", func() hash.Hash { return gcHash.MIMC_BN254.New() })
	stdHash.Register("mimc", func(api frontend.API) (stdHash.FieldHasher, error) {
		m, err := mimc.NewMiMC(api)
		return &m, err
	})
	_ = constraint.GkrInfo{}
	for _, tc := range []struct {
		n    int
		deps [][2]int
	}{{4, [][2]int{{0, 2}}}, {4, [][2]int{{0, 1}}},{4, [][2]int{{1, 0}}}, {4, [][2]int{{0,1},{1, 2},{2,3}}}, {2, nil}} {
		for _, b := range []string{"r1cs", "scs"} {
			func() {
				defer func() {
					if p := recover(); p != nil {
						fmt.Println("PANIC", tc.n, b, p)
					}
				}()
				c := &expCircuit{X: make([]frontend.Variable, tc.n), Y: make([]frontend.Variable, tc.n), deps: tc.deps, dbg: true}
				var ccs constraint.ConstraintSystem
				var err error
				if b == "r1cs" {
					ccs, err = frontend.Compile(ecc.BN254.ScalarField(), r1cs.NewBuilder, c)
				} else {
					ccs, err = frontend.Compile(ecc.BN254.ScalarField(), scs.NewBuilder, c)
				}
				if err != nil {
					fmt.Println("compile err", tc.n, b, err)
					return
				}
				a := &expCircuit{X: make([]frontend.Variable, tc.n), Y: make([]frontend.Variable, tc.n)}
				for i := 0; i < tc.n; i++ {
					a.X[i] = 10 + i
					a.Y[i] = 2 + i
				}
				w, _ := frontend.NewWitness(a, ecc.BN254.ScalarField())
				_, err = ccs.Solve(w)
				fmt.Println("solve", tc.n, b, ccs.GetNbConstraints(), err)
			}()
		}
	}
}
