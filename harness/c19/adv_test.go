//go:build verif

package c19

import (
	"math/big"
	"math/bits"
	"math/rand/v2"

	"github.com/consensys/gnark/constraint"
)

// proofLayout locates the elements of the serialized GKR proof: for every wire
// (sorted order) that has a sum-check, logN polynomials of degree+1 evaluations,
// then one final-evaluation claim per distinct input wire.
type proofLayout struct {
	polyIdx  []int // indices of sum-check polynomial coefficients
	finalIdx []int // indices of final evaluation claims
	total    int
}

func layoutOf(k *curveKit, info constraint.GkrInfo) (proofLayout, bool) {
	var l proofLayout
	logN := bits.TrailingZeros(uint(info.NbInstances))
	pos := 0
	for _, w := range info.Circuit {
		isInput := len(w.Inputs) == 0
		nbClaims := w.NbUniqueOutputs
		if nbClaims == 0 {
			nbClaims = 1
		}
		noProof := isInput && nbClaims == 1
		deg := 1
		if !isInput {
			_, d, _, ok := k.gateInfo(w.Gate)
			if !ok {
				return l, false
			}
			deg = d
		}
		if !noProof {
			for r := 0; r < logN; r++ {
				for c := 0; c <= deg; c++ {
					l.polyIdx = append(l.polyIdx, pos)
					pos++
				}
			}
		}
		uniq := map[int]bool{}
		for _, in := range w.Inputs {
			uniq[in] = true
		}
		for range uniq {
			l.finalIdx = append(l.finalIdx, pos)
			pos++
		}
	}
	l.total = pos
	return l, true
}

// lie is one deviation of the dishonest prover.
type lie struct {
	name  string
	class string // control | outputs | outputs+own-proof | proof | inputs
	// build returns the hooks for one Solve; rng is private to the case.
	build func(rng *rand.Rand, p *big.Int, n int, lay proofLayout) hooks
}

func addOne(v []*big.Int, i int, p *big.Int) {
	v[i].Add(v[i], big.NewInt(1))
	v[i].Mod(v[i], p)
}

func randFe(rng *rand.Rand, p *big.Int) *big.Int {
	b := make([]byte, (p.BitLen()+7)/8+8)
	for i := range b {
		b[i] = byte(rng.UintN(256))
	}
	return new(big.Int).Mod(new(big.Int).SetBytes(b), p)
}

func rotate(v []*big.Int) {
	if len(v) < 2 {
		return
	}
	last := new(big.Int).Set(v[len(v)-1])
	for i := len(v) - 1; i > 0; i-- {
		v[i].Set(v[i-1])
	}
	v[0].Set(last)
}

func outsLie(f func(rng *rand.Rand, p *big.Int, n int, outs []*big.Int)) func(*rand.Rand, *big.Int, int, proofLayout) hooks {
	return func(rng *rand.Rand, p *big.Int, n int, _ proofLayout) hooks {
		return hooks{MutateOuts: func(outs []*big.Int) { f(rng, p, n, outs) }}
	}
}

func outsLieOwn(f func(rng *rand.Rand, p *big.Int, n int, outs []*big.Int)) func(*rand.Rand, *big.Int, int, proofLayout) hooks {
	return func(rng *rand.Rand, p *big.Int, n int, _ proofLayout) hooks {
		return hooks{OwnProof: true, MutateOuts: func(outs []*big.Int) { f(rng, p, n, outs) }}
	}
}

func proofLie(f func(rng *rand.Rand, p *big.Int, lay proofLayout, proof []*big.Int)) func(*rand.Rand, *big.Int, int, proofLayout) hooks {
	return func(rng *rand.Rand, p *big.Int, _ int, lay proofLayout) hooks {
		return hooks{MutateProof: func(proof []*big.Int) { f(rng, p, lay, proof) }}
	}
}

func insLie(f func(rng *rand.Rand, p *big.Int, n int, ins []*big.Int)) func(*rand.Rand, *big.Int, int, proofLayout) hooks {
	return func(rng *rand.Rand, p *big.Int, n int, _ proofLayout) hooks {
		return hooks{MutateIns: func(ins []*big.Int) { f(rng, p, n, ins) }}
	}
}

var (
	oneOutPlus1 = func(rng *rand.Rand, p *big.Int, _ int, o []*big.Int) { addOne(o, rng.IntN(len(o)), p) }
	allOutPlus1 = func(_ *rand.Rand, p *big.Int, _ int, o []*big.Int) {
		for i := range o {
			addOne(o, i, p)
		}
	}
	swapInstances = func(rng *rand.Rand, _ *big.Int, n int, o []*big.Int) {
		if n < 2 {
			return
		}
		w := rng.IntN(len(o) / n)
		i := rng.IntN(n)
		j := rng.IntN(n - 1)
		if j >= i {
			j++
		}
		a, b := o[w*n+i], o[w*n+j]
		t := new(big.Int).Set(a)
		a.Set(b)
		b.Set(t)
	}
)

var lies = []lie{
	{name: "control", class: "control", build: func(*rand.Rand, *big.Int, int, proofLayout) hooks { return hooks{} }},

	// no deviation, but the proof comes from the adversary's own prover: must reproduce the genuine proof and be accepted
	{name: "control/own-prover", class: "control", build: func(*rand.Rand, *big.Int, int, proofLayout) hooks { return hooks{OwnProof: true} }},

	// ---- solving hint: exported values altered, genuine proof (of the true assignment)
	{name: "out-one+1", class: "outputs", build: outsLie(oneOutPlus1)},
	{name: "out-one-random", class: "outputs", build: outsLie(func(rng *rand.Rand, p *big.Int, _ int, o []*big.Int) {
		o[rng.IntN(len(o))].Set(randFe(rng, p))
	})},
	{name: "out-one-zero", class: "outputs", build: outsLie(func(rng *rand.Rand, _ *big.Int, _ int, o []*big.Int) {
		o[rng.IntN(len(o))].SetUint64(0)
	})},
	{name: "out-one-negated", class: "outputs", build: outsLie(func(rng *rand.Rand, p *big.Int, _ int, o []*big.Int) {
		i := rng.IntN(len(o))
		o[i].Sub(p, o[i]).Mod(o[i], p)
	})},
	{name: "out-all+1", class: "outputs", build: outsLie(allOutPlus1)},
	{name: "out-all-const", class: "outputs", build: outsLie(func(_ *rand.Rand, _ *big.Int, _ int, o []*big.Int) {
		for i := range o {
			o[i].SetUint64(42)
		}
	})},
	{name: "out-swap-two-instances", class: "outputs", build: outsLie(swapInstances)},
	{name: "out-shifted-by-one", class: "outputs", build: outsLie(func(_ *rand.Rand, _ *big.Int, _ int, o []*big.Int) { rotate(o) })},
	{name: "out-truncated", class: "outputs", build: outsLie(func(_ *rand.Rand, _ *big.Int, _ int, o []*big.Int) {
		for i := len(o) / 2; i < len(o); i++ {
			o[i].SetUint64(0)
		}
	})},
	{name: "out-zeros", class: "outputs", build: outsLie(func(_ *rand.Rand, _ *big.Int, _ int, o []*big.Int) {
		for i := range o {
			o[i].SetUint64(0)
		}
	})},

	// ---- wrong output + the best proof the native prover can make for it
	{name: "out-one+1/own-proof", class: "outputs+own-proof", build: outsLieOwn(oneOutPlus1)},
	{name: "out-all+1/own-proof", class: "outputs+own-proof", build: outsLieOwn(allOutPlus1)},
	{name: "out-swap-two-instances/own-proof", class: "outputs+own-proof", build: outsLieOwn(swapInstances)},

	// ---- proving hint: proof altered, outputs true
	{name: "proof-sumcheck-coeff+1", class: "proof", build: proofLie(func(rng *rand.Rand, p *big.Int, l proofLayout, pr []*big.Int) {
		if len(l.polyIdx) > 0 && l.total == len(pr) {
			addOne(pr, l.polyIdx[rng.IntN(len(l.polyIdx))], p)
		}
	})},
	{name: "proof-sumcheck-coeff-random", class: "proof", build: proofLie(func(rng *rand.Rand, p *big.Int, l proofLayout, pr []*big.Int) {
		if len(l.polyIdx) > 0 && l.total == len(pr) {
			pr[l.polyIdx[rng.IntN(len(l.polyIdx))]].Set(randFe(rng, p))
		}
	})},
	{name: "proof-first-coeff+1", class: "proof", build: proofLie(func(_ *rand.Rand, p *big.Int, l proofLayout, pr []*big.Int) {
		if len(l.polyIdx) > 0 && l.total == len(pr) {
			addOne(pr, l.polyIdx[0], p)
		}
	})},
	{name: "proof-final-eval-claim+1", class: "proof", build: proofLie(func(rng *rand.Rand, p *big.Int, l proofLayout, pr []*big.Int) {
		if len(l.finalIdx) > 0 && l.total == len(pr) {
			addOne(pr, l.finalIdx[rng.IntN(len(l.finalIdx))], p)
		}
	})},
	{name: "proof-last-final-eval-claim+1", class: "proof", build: proofLie(func(_ *rand.Rand, p *big.Int, l proofLayout, pr []*big.Int) {
		if len(l.finalIdx) > 0 && l.total == len(pr) {
			addOne(pr, l.finalIdx[len(l.finalIdx)-1], p)
		}
	})},
	{name: "proof-one-element-zero", class: "proof", build: proofLie(func(rng *rand.Rand, _ *big.Int, _ proofLayout, pr []*big.Int) {
		pr[rng.IntN(len(pr))].SetUint64(0)
	})},
	{name: "proof-shifted-by-one", class: "proof", build: proofLie(func(_ *rand.Rand, _ *big.Int, _ proofLayout, pr []*big.Int) { rotate(pr) })},
	{name: "proof-swap-adjacent", class: "proof", build: proofLie(func(rng *rand.Rand, _ *big.Int, _ proofLayout, pr []*big.Int) {
		if len(pr) < 2 {
			return
		}
		i := rng.IntN(len(pr) - 1)
		t := new(big.Int).Set(pr[i])
		pr[i].Set(pr[i+1])
		pr[i+1].Set(t)
	})},
	{name: "proof-truncated", class: "proof", build: proofLie(func(_ *rand.Rand, _ *big.Int, _ proofLayout, pr []*big.Int) {
		for i := len(pr) / 2; i < len(pr); i++ {
			pr[i].SetUint64(0)
		}
	})},
	{name: "proof-last-element-dropped", class: "proof", build: proofLie(func(_ *rand.Rand, _ *big.Int, _ proofLayout, pr []*big.Int) {
		pr[len(pr)-1].SetUint64(0)
	})},
	{name: "proof-zeros", class: "proof", build: proofLie(func(_ *rand.Rand, _ *big.Int, _ proofLayout, pr []*big.Int) {
		for i := range pr {
			pr[i].SetUint64(0)
		}
	})},
	{name: "proof-random", class: "proof", build: proofLie(func(rng *rand.Rand, p *big.Int, _ proofLayout, pr []*big.Int) {
		for i := range pr {
			pr[i].Set(randFe(rng, p))
		}
	})},

	// ---- native solver and prover run, consistently, on inputs the circuit never
	// imported: outputs and proof are a perfect pair for the wrong inputs
	{name: "ins-one+1", class: "inputs", build: insLie(func(rng *rand.Rand, p *big.Int, _ int, in []*big.Int) { addOne(in, rng.IntN(len(in)), p) })},
	{name: "ins-one-random", class: "inputs", build: insLie(func(rng *rand.Rand, p *big.Int, _ int, in []*big.Int) {
		in[rng.IntN(len(in))].Set(randFe(rng, p))
	})},
	{name: "ins-all+1", class: "inputs", build: insLie(func(_ *rand.Rand, p *big.Int, _ int, in []*big.Int) {
		for i := range in {
			addOne(in, i, p)
		}
	})},
	{name: "ins-shifted-by-one", class: "inputs", build: insLie(func(_ *rand.Rand, _ *big.Int, _ int, in []*big.Int) { rotate(in) })},

	// ---- both hints lie
	{name: "out-one+1&proof-random", class: "outputs", build: func(rng *rand.Rand, p *big.Int, n int, _ proofLayout) hooks {
		return hooks{
			MutateOuts: func(o []*big.Int) { oneOutPlus1(rng, p, n, o) },
			MutateProof: func(pr []*big.Int) {
				for i := range pr {
					pr[i].Set(randFe(rng, p))
				}
			}}
	}},
}
