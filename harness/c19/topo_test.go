//go:build verif

package c19

import (
	"fmt"
	"math/big"
	"math/rand/v2"
	"reflect"
	"sort"
	"strings"
	"sync"
	"sync/atomic"

	"github.com/consensys/gnark/constraint"
	"github.com/consensys/gnark/constraint/solver"
	"github.com/consensys/gnark/frontend"
	"github.com/consensys/gnark/std/gkr"
)

// ---------------------------------------------------------------- gates

// gateDef is one gate in its three independent forms: the harness's big.Int
// meaning (oracle), the frontend form (registered in std/gkr for custom gates,
// also used for the direct in-circuit evaluation), and — in cv_<curve> — the
// field form registered with the native prover.
type gateDef struct {
	name    string
	nbIn    int
	degree  int
	builtin bool
	ref     func(p *big.Int, x []*big.Int) *big.Int
	fe      func(api gkr.GateAPI, x ...frontend.Variable) frontend.Variable
	opts    []gkr.RegisterGateOption
}

func mod(p, x *big.Int) *big.Int { return x.Mod(x, p) }

var gateDefs = []gateDef{
	{name: "add", nbIn: 2, degree: 1, builtin: true,
		ref: func(p *big.Int, x []*big.Int) *big.Int { return mod(p, new(big.Int).Add(x[0], x[1])) },
		fe:  func(api gkr.GateAPI, x ...frontend.Variable) frontend.Variable { return api.Add(x[0], x[1]) }},
	{name: "mul", nbIn: 2, degree: 2, builtin: true,
		ref: func(p *big.Int, x []*big.Int) *big.Int { return mod(p, new(big.Int).Mul(x[0], x[1])) },
		fe:  func(api gkr.GateAPI, x ...frontend.Variable) frontend.Variable { return api.Mul(x[0], x[1]) }},
	{name: "sub", nbIn: 2, degree: 1, builtin: true,
		ref: func(p *big.Int, x []*big.Int) *big.Int { return mod(p, new(big.Int).Sub(x[0], x[1])) },
		fe:  func(api gkr.GateAPI, x ...frontend.Variable) frontend.Variable { return api.Sub(x[0], x[1]) }},
	{name: "neg", nbIn: 1, degree: 1, builtin: true,
		ref: func(p *big.Int, x []*big.Int) *big.Int { return mod(p, new(big.Int).Neg(x[0])) },
		fe:  func(api gkr.GateAPI, x ...frontend.Variable) frontend.Variable { return api.Neg(x[0]) }},
	// x*y + z ; degree and solvable variable discovered by RegisterGate
	{name: "c19_fma", nbIn: 3, degree: 2,
		ref: func(p *big.Int, x []*big.Int) *big.Int {
			return mod(p, new(big.Int).Add(new(big.Int).Mul(x[0], x[1]), x[2]))
		},
		// MulAcc may mutate its first argument in place: accumulate into a fresh copy, as its documentation requires
		fe: func(api gkr.GateAPI, x ...frontend.Variable) frontend.Variable {
			return api.MulAcc(api.Mul(x[2], 1), x[0], x[1])
		}},
	// x^3
	{name: "c19_cube", nbIn: 1, degree: 3,
		ref:  func(p *big.Int, x []*big.Int) *big.Int { return new(big.Int).Exp(x[0], big.NewInt(3), p) },
		fe:   func(api gkr.GateAPI, x ...frontend.Variable) frontend.Variable { return api.Mul(x[0], x[0], x[0]) },
		opts: []gkr.RegisterGateOption{gkr.WithDegree(3), gkr.WithNoSolvableVar()}},
	// x^2*y^2 + x
	{name: "c19_quart", nbIn: 2, degree: 4,
		ref: func(p *big.Int, x []*big.Int) *big.Int {
			t := new(big.Int).Mul(x[0], x[1])
			t.Mul(t, t)
			return mod(p, t.Add(t, x[0]))
		},
		fe: func(api gkr.GateAPI, x ...frontend.Variable) frontend.Variable {
			t := api.Mul(x[0], x[1])
			return api.Add(api.Mul(t, t), x[0])
		},
		opts: []gkr.RegisterGateOption{gkr.WithDegree(4), gkr.WithNoSolvableVar()}},
	// 2x + 3y - z + 7 ; everything discovered
	{name: "c19_aff3", nbIn: 3, degree: 1,
		ref: func(p *big.Int, x []*big.Int) *big.Int {
			t := new(big.Int).Lsh(x[0], 1)
			t.Add(t, new(big.Int).Mul(x[1], big.NewInt(3)))
			t.Sub(t, x[2])
			return mod(p, t.Add(t, big.NewInt(7)))
		},
		fe: func(api gkr.GateAPI, x ...frontend.Variable) frontend.Variable {
			return api.Sub(api.Add(api.Mul(x[0], 2), api.Mul(x[1], 3), 7), x[2])
		}},
	// x (second input ignored)
	{name: "c19_first", nbIn: 2, degree: 1,
		ref:  func(p *big.Int, x []*big.Int) *big.Int { return new(big.Int).Set(x[0]) },
		fe:   func(api gkr.GateAPI, x ...frontend.Variable) frontend.Variable { return x[0] },
		opts: []gkr.RegisterGateOption{gkr.WithDegree(1), gkr.WithSolvableVar(0)}},
	// x^2 * y
	{name: "c19_x2y", nbIn: 2, degree: 3,
		ref: func(p *big.Int, x []*big.Int) *big.Int {
			t := new(big.Int).Mul(x[0], x[0])
			return mod(p, t.Mul(t, x[1]))
		},
		fe:   func(api gkr.GateAPI, x ...frontend.Variable) frontend.Variable { return api.Mul(x[0], x[0], x[1]) },
		opts: []gkr.RegisterGateOption{gkr.WithDegree(3), gkr.WithNoSolvableVar()}},
}

var gateByName = func() map[string]*gateDef {
	m := map[string]*gateDef{}
	for i := range gateDefs {
		m[gateDefs[i].name] = &gateDefs[i]
	}
	return m
}()

// weights used by the generator
var gateWeights = map[string]int{"add": 4, "mul": 6, "sub": 3, "neg": 2, "c19_fma": 2, "c19_cube": 2, "c19_quart": 2, "c19_aff3": 2, "c19_first": 1, "c19_x2y": 2}

// ---------------------------------------------------------------- topology

type wireSpec struct {
	Op string `json:"op"` // "in" or a gate name
	In []int  `json:"in,omitempty"`
}

// depSpec: input wire InWire of instance InInst takes the value of output wire
// OutWire of instance OutInst (gkr.API.Series).
type depSpec struct {
	InWire  int `json:"in_wire"`
	OutWire int `json:"out_wire"`
	InInst  int `json:"in_inst"`
	OutInst int `json:"out_inst"`
}

type topo struct {
	Name         string     `json:"name"`
	N            int        `json:"instances"`
	Wires        []wireSpec `json:"wires"`
	Deps         []depSpec  `json:"deps,omitempty"`
	DepPattern   string     `json:"dep_pattern"`
	Hash         string     `json:"hash"`
	Chal         string     `json:"challenge"` // "commit": Commit(inputs, exported) ; "outputs": the exported outputs ; "none"
	ExportInputs bool       `json:"export_inputs"`

	depOnce sync.Once
	depIdx  map[[2]int]int // (input wire, instance) -> index in Deps
}

func (t *topo) inputs() (r []int) {
	for i, w := range t.Wires {
		if w.Op == "in" {
			r = append(r, i)
		}
	}
	return
}

func (t *topo) outputs() (r []int) {
	used := make([]bool, len(t.Wires))
	for _, w := range t.Wires {
		for _, i := range w.In {
			used[i] = true
		}
	}
	for i, w := range t.Wires {
		if w.Op != "in" && !used[i] {
			r = append(r, i)
		}
	}
	return
}

func (t *topo) depths() []int {
	d := make([]int, len(t.Wires))
	for i, w := range t.Wires {
		for _, in := range w.In {
			if d[in]+1 > d[i] {
				d[i] = d[in] + 1
			}
		}
	}
	return d
}

func (t *topo) depth() int {
	m := 0
	for _, d := range t.depths() {
		if d > m {
			m = d
		}
	}
	return m
}

func (t *topo) maxFanOut() int {
	cnt := make([]int, len(t.Wires))
	for _, w := range t.Wires {
		seen := map[int]bool{}
		for _, i := range w.In {
			if !seen[i] {
				cnt[i]++
				seen[i] = true
			}
		}
	}
	m := 0
	for _, c := range cnt {
		if c > m {
			m = c
		}
	}
	return m
}

// exported lists the wires whose values the circuit exports, in order.
func (t *topo) exported() []int {
	var r []int
	if t.ExportInputs {
		r = append(r, t.inputs()...)
	}
	return append(r, t.outputs()...)
}

// depOf returns the dependency bound to (input wire, instance), or nil.
func (t *topo) depOf(w, inst int) *depSpec {
	t.depOnce.Do(func() {
		t.depIdx = make(map[[2]int]int, len(t.Deps))
		for i := len(t.Deps) - 1; i >= 0; i-- { // the first one listed wins
			t.depIdx[[2]int{t.Deps[i].InWire, t.Deps[i].InInst}] = i
		}
	})
	if i, ok := t.depIdx[[2]int{w, inst}]; ok {
		return &t.Deps[i]
	}
	return nil
}

// slots maps (input wire, instance) to the index of its witness value, -1 if bound by a dependency.
func (t *topo) slots() (idx map[[2]int]int, n int) {
	idx = map[[2]int]int{}
	for _, w := range t.inputs() {
		for i := 0; i < t.N; i++ {
			if t.depOf(w, i) != nil {
				idx[[2]int{w, i}] = -1
			} else {
				idx[[2]int{w, i}] = n
				n++
			}
		}
	}
	return
}

// order is the harness's own topological order of the instances (Kahn, smallest index first).
func (t *topo) order() []int {
	indeg := make([]int, t.N)
	succ := make([][]int, t.N)
	for _, d := range t.Deps {
		indeg[d.InInst]++
		succ[d.OutInst] = append(succ[d.OutInst], d.InInst)
	}
	res := make([]int, 0, t.N)
	queue := make([]int, 0, t.N)
	for i := 0; i < t.N; i++ {
		if indeg[i] == 0 {
			queue = append(queue, i)
		}
	}
	for len(queue) > 0 {
		i := queue[0]
		queue = queue[1:]
		res = append(res, i)
		for _, s := range succ[i] {
			if indeg[s]--; indeg[s] == 0 {
				queue = append(queue, s)
			}
		}
	}
	if len(res) != t.N {
		panic("c19: cyclic instance dependencies generated")
	}
	return res
}

func (t *topo) String() string {
	var sb strings.Builder
	fmt.Fprintf(&sb, "N=%d hash=%s chal=%s deps=%s:", t.N, t.Hash, t.Chal, t.DepPattern)
	for i, w := range t.Wires {
		fmt.Fprintf(&sb, " w%d=%s%v", i, w.Op, w.In)
	}
	for i, d := range t.Deps {
		if i == 16 {
			fmt.Fprintf(&sb, " … (%d dependencies in all)", len(t.Deps))
			break
		}
		fmt.Fprintf(&sb, " [w%d@%d<-w%d@%d]", d.InWire, d.InInst, d.OutWire, d.OutInst)
	}
	return sb.String()
}

// refEval is the oracle: big.Int evaluation of every wire of every instance
// (original instance numbering), dependencies resolved in the harness's own order.
func (t *topo) refEval(p *big.Int, vals []*big.Int) [][]*big.Int {
	idx, _ := t.slots()
	v := make([][]*big.Int, len(t.Wires))
	for i := range v {
		v[i] = make([]*big.Int, t.N)
	}
	for _, inst := range t.order() {
		for wi, w := range t.Wires {
			if w.Op == "in" {
				if d := t.depOf(wi, inst); d != nil {
					v[wi][inst] = v[d.OutWire][d.OutInst]
				} else {
					v[wi][inst] = new(big.Int).Mod(vals[idx[[2]int{wi, inst}]], p)
				}
				continue
			}
			x := make([]*big.Int, len(w.In))
			for j, in := range w.In {
				x[j] = v[in][inst]
			}
			v[wi][inst] = gateByName[w.Op].ref(p, x)
		}
	}
	return v
}

// ---------------------------------------------------------------- generator

func pickGate(rng *rand.Rand, allowCustom bool) *gateDef {
	total := 0
	for i := range gateDefs {
		if gateDefs[i].builtin || allowCustom {
			total += gateWeights[gateDefs[i].name]
		}
	}
	k := rng.IntN(total)
	for i := range gateDefs {
		if gateDefs[i].builtin || allowCustom {
			k -= gateWeights[gateDefs[i].name]
			if k < 0 {
				return &gateDefs[i]
			}
		}
	}
	return &gateDefs[0]
}

func genTopo(rng *rand.Rand, name string, n, maxDepth int, depPattern string) *topo {
	t := &topo{Name: name, N: n, DepPattern: depPattern}
	nIn := 1 + rng.IntN(3)
	if rng.IntN(8) == 0 {
		nIn = 4
	}
	for i := 0; i < nIn; i++ {
		t.Wires = append(t.Wires, wireSpec{Op: "in"})
	}
	depth := make([]int, nIn, 32)
	nGates := maxDepth + rng.IntN(2+maxDepth)
	maxGates := 12
	switch {
	case n >= 32:
		maxGates = 6
	case n >= 16:
		maxGates = 8
	}
	if nGates > maxGates {
		nGates = maxGates
	}
	allowCustom := rng.IntN(5) != 0
	shallow := func() int { // a wire that can still be consumed
		for {
			k := rng.IntN(len(t.Wires))
			if depth[k] < maxDepth {
				return k
			}
		}
	}
	for g := 0; g < nGates; g++ {
		gd := pickGate(rng, allowCustom)
		ins := make([]int, gd.nbIn)
		for j := range ins {
			switch {
			case j > 0 && rng.IntN(6) == 0:
				ins[j] = ins[j-1] // the same wire twice in one gate
			case rng.IntN(2) == 0 && depth[len(t.Wires)-1] < maxDepth:
				ins[j] = len(t.Wires) - 1 // grow the depth
			default:
				ins[j] = shallow()
			}
		}
		d := 0
		for _, in := range ins {
			if depth[in]+1 > d {
				d = depth[in] + 1
			}
		}
		t.Wires = append(t.Wires, wireSpec{Op: gd.name, In: ins})
		depth = append(depth, d)
	}
	// every input must be consumed ("unused input" is an error of the API)
	used := make([]bool, len(t.Wires))
	for _, w := range t.Wires {
		for _, in := range w.In {
			used[in] = true
		}
	}
	for i := 0; i < nIn; i++ {
		if !used[i] {
			op := []string{"add", "mul", "sub"}[rng.IntN(3)]
			p := shallow()
			ins := []int{i, p}
			if rng.IntN(2) == 0 {
				ins = []int{p, i}
			}
			t.Wires = append(t.Wires, wireSpec{Op: op, In: ins})
			depth = append(depth, depth[p]+1)
		}
	}
	t.genDeps(rng)
	t.ExportInputs = rng.IntN(3) == 0
	return t
}

// genDeps creates Series dependencies following t.DepPattern; instance-level acyclic by construction.
func (t *topo) genDeps(rng *rand.Rand) {
	if t.N == 1 || t.DepPattern == "none" {
		t.DepPattern = "none"
		return
	}
	ins, outs := t.inputs(), t.outputs()
	pickIn := func() int { return ins[rng.IntN(len(ins))] }
	pickOut := func() int { return outs[rng.IntN(len(outs))] }
	seen := map[[2]int]bool{}
	add := func(inW, outW, inInst, outInst int) {
		if !seen[[2]int{inW, inInst}] {
			seen[[2]int{inW, inInst}] = true
			t.Deps = append(t.Deps, depSpec{InWire: inW, OutWire: outW, InInst: inInst, OutInst: outInst})
		}
	}
	switch t.DepPattern {
	case "chain-fwd": // instance i consumes an output of instance i-1
		a, o := pickIn(), pickOut()
		for i := 1; i < t.N; i++ {
			add(a, o, i, i-1)
		}
	case "chain-rev": // instance i-1 consumes an output of instance i (as in gnark's own test)
		a, o := pickIn(), pickOut()
		for i := t.N - 1; i > 0; i-- {
			add(a, o, i-1, i)
		}
	case "tree": // heap-shaped: instance j consumes instances 2j+1 and 2j+2
		a, o := pickIn(), pickOut()
		b := pickIn()
		for j := 0; j < t.N; j++ {
			if 2*j+1 < t.N {
				add(a, o, j, 2*j+1)
			}
			if 2*j+2 < t.N && b != a {
				add(b, pickOut(), j, 2*j+2)
			}
		}
	case "star": // every other instance consumes one instance
		c := rng.IntN(t.N)
		a, o := pickIn(), pickOut()
		for i := 0; i < t.N; i++ {
			if i != c && rng.IntN(4) != 0 {
				add(a, o, i, c)
			}
		}
	case "single": // one dependency between two arbitrary instances
		i := rng.IntN(t.N)
		j := rng.IntN(t.N - 1)
		if j >= i {
			j++
		}
		add(pickIn(), pickOut(), i, j)
	default: // "dag": random priority order, edges only from earlier to later
		t.DepPattern = "dag"
		perm := rng.Perm(t.N)
		for k := 1; k < t.N; k++ {
			if rng.IntN(5) < 2 {
				continue
			}
			for _, a := range ins {
				if rng.IntN(len(ins)) == 0 {
					add(a, pickOut(), perm[k], perm[rng.IntN(k)])
				}
			}
		}
	}
}

var depPatterns = []string{"none", "none", "chain-fwd", "chain-rev", "tree", "star", "single", "dag", "dag", "dag"}

// ---------------------------------------------------------------- values

func genValues(rng *rand.Rand, p *big.Int, n int, mode string) []*big.Int {
	edges := []*big.Int{
		big.NewInt(0), big.NewInt(1), big.NewInt(2), new(big.Int).Sub(p, big.NewInt(1)), new(big.Int).Sub(p, big.NewInt(2)),
		new(big.Int).Rsh(p, 1), new(big.Int).Add(new(big.Int).Rsh(p, 1), big.NewInt(1)),
		new(big.Int).Lsh(big.NewInt(1), 64), new(big.Int).Sub(new(big.Int).Lsh(big.NewInt(1), 128), big.NewInt(1)),
	}
	randFe := func() *big.Int {
		b := make([]byte, (p.BitLen()+7)/8+8)
		for i := range b {
			b[i] = byte(rng.UintN(256))
		}
		return new(big.Int).Mod(new(big.Int).SetBytes(b), p)
	}
	v := make([]*big.Int, n)
	for i := range v {
		switch mode {
		case "zeros":
			v[i] = big.NewInt(0)
		case "ones":
			v[i] = big.NewInt(1)
		case "small":
			v[i] = big.NewInt(int64(rng.IntN(10)))
		case "edges":
			v[i] = new(big.Int).Set(edges[rng.IntN(len(edges))])
		case "mixed":
			if rng.IntN(3) == 0 {
				v[i] = new(big.Int).Set(edges[rng.IntN(len(edges))])
			} else {
				v[i] = randFe()
			}
		default:
			v[i] = randFe()
		}
	}
	return v
}

var valueModes = []string{"random", "mixed", "edges", "small", "random", "mixed", "zeros", "ones"}

// ---------------------------------------------------------------- tap hint

var (
	tapStore sync.Map // nonce (decimal) -> []*big.Int
	tapCalls atomic.Int64
	nonceCtr atomic.Int64
)

// tapHint hands the values of in-circuit variables to the harness: ins[0] is the
// per-solve nonce (a public input), the rest are the tapped variables.
func tapHint(_ *big.Int, ins, outs []*big.Int) error {
	cp := make([]*big.Int, len(ins)-1)
	for i := range cp {
		cp[i] = new(big.Int).Set(ins[i+1])
	}
	tapStore.Store(ins[0].String(), cp)
	tapCalls.Add(1)
	for i := range outs {
		outs[i].SetUint64(0)
	}
	return nil
}

func init() { solver.RegisterHint(tapHint) }

func newNonce() *big.Int { return big.NewInt(1_000_000 + nonceCtr.Add(1)) }

func takeTap(nonce *big.Int) []*big.Int {
	v, ok := tapStore.LoadAndDelete(nonce.String())
	if !ok {
		return nil
	}
	return v.([]*big.Int)
}

// ---------------------------------------------------------------- circuit

// topoCircuit interprets a topo through the std/gkr API.
type topoCircuit struct {
	Nonce frontend.Variable `gnark:",public"`
	Vals  []frontend.Variable

	t      *topo
	assert bool // assert every exported value against the direct evaluation
	// probe: set by Define when gkr.API.Solve reordered the caller's Import slices in place
	reordered *atomic.Int64
}

func newTopoCircuit(t *topo, assert bool) *topoCircuit {
	_, n := t.slots()
	return &topoCircuit{Vals: make([]frontend.Variable, n), t: t, assert: assert, reordered: new(atomic.Int64)}
}

func (c *topoCircuit) assignment(nonce *big.Int, vals []*big.Int) *topoCircuit {
	a := &topoCircuit{Nonce: nonce, Vals: make([]frontend.Variable, len(vals))}
	for i := range vals {
		a.Vals[i] = new(big.Int).Set(vals[i])
	}
	return a
}

func (c *topoCircuit) Define(api frontend.API) error {
	t := c.t
	idx, _ := t.slots()
	g := gkr.NewApi()
	vars := make([]constraint.GkrVariable, len(t.Wires))
	imported := map[int][]frontend.Variable{}
	importedCopy := map[int][]frontend.Variable{}
	for wi, w := range t.Wires {
		if w.Op == "in" {
			s := make([]frontend.Variable, t.N)
			for i := range s {
				if k := idx[[2]int{wi, i}]; k >= 0 {
					s[i] = c.Vals[k]
				}
			}
			imported[wi] = s
			importedCopy[wi] = append([]frontend.Variable{}, s...)
			v, err := g.Import(s)
			if err != nil {
				return err
			}
			vars[wi] = v
			continue
		}
		in := make([]constraint.GkrVariable, len(w.In))
		for j, k := range w.In {
			in[j] = vars[k]
		}
		switch w.Op {
		case "add":
			vars[wi] = g.Add(in[0], in[1])
		case "mul":
			vars[wi] = g.Mul(in[0], in[1])
		case "sub":
			vars[wi] = g.Sub(in[0], in[1])
		case "neg":
			vars[wi] = g.Neg(in[0])
		default:
			vars[wi] = g.NamedGate(gkr.GateName(w.Op), in...)
		}
	}
	for _, d := range t.Deps {
		g.Series(vars[d.InWire], vars[d.OutWire], d.InInst, d.OutInst)
	}
	sol, err := g.Solve(api)
	if err != nil {
		return err
	}
	// probe (observation only): did Solve reorder the slices handed to Import?
	for wi, s := range imported {
		if !reflect.DeepEqual(s, importedCopy[wi]) {
			c.reordered.Add(1)
		}
	}

	expWires := t.exported()
	exp := make(map[int][]frontend.Variable, len(expWires))
	var flat []frontend.Variable
	for _, w := range expWires {
		exp[w] = sol.Export(vars[w])
		if len(exp[w]) != t.N {
			return fmt.Errorf("c19: Export returned %d values for %d instances", len(exp[w]), t.N)
		}
		flat = append(flat, exp[w]...)
	}

	if c.assert {
		// direct evaluation with the frontend API on the imported inputs
		direct := make([][]frontend.Variable, len(t.Wires))
		for i := range direct {
			direct[i] = make([]frontend.Variable, t.N)
		}
		for _, inst := range t.order() {
			for wi, w := range t.Wires {
				if w.Op == "in" {
					if d := t.depOf(wi, inst); d != nil {
						direct[wi][inst] = direct[d.OutWire][d.OutInst]
					} else {
						direct[wi][inst] = c.Vals[idx[[2]int{wi, inst}]]
					}
					continue
				}
				x := make([]frontend.Variable, len(w.In))
				for j, in := range w.In {
					x[j] = direct[in][inst]
				}
				direct[wi][inst] = gateByName[w.Op].fe(api, x...)
			}
		}
		for _, w := range expWires {
			for i := 0; i < t.N; i++ {
				api.AssertIsEqual(exp[w][i], direct[w][i])
			}
		}
	}

	if _, err := api.Compiler().NewHint(tapHint, 1, append([]frontend.Variable{c.Nonce}, flat...)...); err != nil {
		return err
	}

	var chal []frontend.Variable
	switch t.Chal {
	case "commit":
		toCommit := append(append([]frontend.Variable{}, c.Vals...), flat...)
		ch, err := api.(frontend.Committer).Commit(toCommit...)
		if err != nil {
			return err
		}
		chal = []frontend.Variable{ch}
	case "outputs":
		for _, w := range t.outputs() {
			chal = append(chal, exp[w]...)
		}
	}
	if err := sol.Verify(t.Hash, chal...); err != nil {
		return err
	}
	if c.assert {
		// history: what Export returns must not depend on whether Verify has run (the in-circuit
		// verifier works on the same assignment tables)
		for _, w := range expWires {
			again := sol.Export(vars[w])
			if len(again) != t.N {
				return fmt.Errorf("c19: Export after Verify returned %d values for %d instances", len(again), t.N)
			}
			for i := 0; i < t.N; i++ {
				api.AssertIsEqual(again[i], exp[w][i])
			}
		}
	}
	return nil
}

// expectedTap flattens the reference values in the order the circuit taps them.
func (t *topo) expectedTap(ref [][]*big.Int) []*big.Int {
	var r []*big.Int
	for _, w := range t.exported() {
		r = append(r, ref[w]...)
	}
	return r
}

func eqVec(a, b []*big.Int) bool {
	if len(a) != len(b) {
		return false
	}
	for i := range a {
		if a[i].Cmp(b[i]) != 0 {
			return false
		}
	}
	return true
}

func strs(v []*big.Int) []string {
	o := make([]string, len(v))
	for i := range v {
		if v[i] == nil {
			o[i] = "nil"
		} else {
			o[i] = v[i].String()
		}
	}
	return o
}

// permutedPerWire reports whether got is, wire by wire, a rearrangement of want across instances.
func (t *topo) permutedPerWire(got, want []*big.Int) bool {
	if len(got) != len(want) || len(got)%t.N != 0 {
		return false
	}
	for o := 0; o < len(got); o += t.N {
		a, b := strs(got[o:o+t.N]), strs(want[o:o+t.N])
		sort.Strings(a)
		sort.Strings(b)
		for i := range a {
			if a[i] != b[i] {
				return false
			}
		}
	}
	return true
}
