//go:build verif

package c19

import (
	"fmt"
	"math/big"

	"github.com/consensys/gnark/backend/groth16"
	"github.com/consensys/gnark/backend/plonk"
	"github.com/consensys/gnark/backend/witness"
	"github.com/consensys/gnark/constraint"
	"github.com/consensys/gnark/frontend"
	"github.com/consensys/gnark/test"
	"github.com/consensys/gnark/test/unsafekzg"

	"github.com/consensys/gnark/verifharness/internal/vcore"
)

// proveVerify runs the real setup / prove / verify of the back-end matching the builder.
func proveVerify(builder string, ccs constraint.ConstraintSystem, w witness.Witness) (stage string, err error) {
	pw, err := w.Public()
	if err != nil {
		return "public-witness", err
	}
	pan, stack := vcore.Catch(func() {
		if builder == "r1cs" {
			pk, vk, e := groth16.Setup(ccs)
			if e != nil {
				stage, err = "setup", e
				return
			}
			proof, e := groth16.Prove(ccs, pk, w)
			if e != nil {
				stage, err = "prove", e
				return
			}
			if e := groth16.Verify(proof, vk, pw); e != nil {
				stage, err = "verify", e
			}
			return
		}
		srs, lag, e := unsafekzg.NewSRS(ccs)
		if e != nil {
			stage, err = "srs", e
			return
		}
		pk, vk, e := plonk.Setup(ccs, srs, lag)
		if e != nil {
			stage, err = "setup", e
			return
		}
		proof, e := plonk.Prove(ccs, pk, w)
		if e != nil {
			stage, err = "prove", e
			return
		}
		if e := plonk.Verify(proof, vk, pw); e != nil {
			stage, err = "verify", e
		}
	})
	if pan != nil {
		return "panic", fmt.Errorf("panic: %v\n%s", pan, stack)
	}
	return stage, err
}

// pickProverTopos chooses small-to-medium topologies that cover the dependency patterns.
func pickProverTopos(r *vcore.Run, topos []*topo, n int) []*topo {
	var out []*topo
	seenPat := map[string]bool{}
	for _, t := range topos {
		if t.Hash != "mimc" || t.N > 8 || t.N < 2 {
			continue
		}
		if !seenPat[t.DepPattern] || len(out) < n/2 {
			seenPat[t.DepPattern] = true
			out = append(out, t)
		}
		if len(out) == n {
			break
		}
	}
	return out
}

// runProvers: a sample of honest cases through the real Groth16 and PLONK provers and verifiers.
func runProvers(r *vcore.Run, topos []*topo) {
	sel := pickProverTopos(r, topos, r.Pick(4, 12))
	type job struct {
		t *topo
		k *curveKit
		b string
	}
	var jobs []job
	for i, t := range sel {
		for _, b := range builders {
			jobs = append(jobs, job{t, &kits[i%len(kits)], b})
		}
	}
	vcore.Parallel(len(jobs), 4, func(i int) {
		j := jobs[i]
		t, k, b := j.t, j.k, j.b
		key := fmt.Sprintf("prover/%s/%s/%s", t.Name, k.name, b)
		c := newTopoCircuit(t, true)
		ccs, err := compile(k, b, c)
		if err != nil {
			r.Count("provers.compile-failed", 1) // already reported by runTopologies
			return
		}
		rng := r.Rand(key)
		vals := genValues(rng, k.mod, len(c.Vals), "mixed")
		ref := t.refEval(k.mod, vals)
		want := t.expectedTap(ref)
		nonce := newNonce()
		w, _ := frontend.NewWitness(c.assignment(nonce, vals), k.mod)
		stage, err := proveVerify(b, ccs, w)
		tap := takeTap(nonce)
		r.Eval(key, true)
		backend := map[string]string{"r1cs": "groth16", "scs": "plonk"}[b]
		if err != nil {
			// a topology whose exported values are wrong is already reported by the honest part
			if tap != nil && !eqVec(tap, want) {
				r.Count("provers.rejected-consistently-with-wrong-export", 1)
				return
			}
			solveErr, _ := solve(ccs, w)
			if solveErr != nil {
				r.Count("provers.rejected-like-plain-solve", 1)
				return
			}
			r.Violation("provers/"+backend+"-fails-on-honest-gkr-circuit:"+stage, short(err), replayOf(t, k, b, vals, nil))
			return
		}
		r.Count("provers.verified", 1)
		r.Count("provers.verified."+backend+"."+k.name, 1)
		if tap != nil {
			if !eqVec(tap, want) {
				r.Violation("provers/proved-with-wrong-exported-values", fmt.Sprintf("exported %v expected %v", strs(tap), strs(want)), replayOf(t, k, b, vals, nil))
			} else {
				r.Count("provers.tap-equal", 1)
			}
		}
		r.SampleClass("provers/"+backend, map[string]any{"topology": t.String(), "curve": k.name, "constraints": ccs.GetNbConstraints()})
	})
}

// runTestEngine: a sequential sample through gnark's test engine, which goes
// through std/gkr/hints.go (SolveHintPlaceholder / ProveHintPlaceholder).
func runTestEngine(r *vcore.Run, topos []*topo) {
	n := r.Pick(6, 24)
	done := 0
	for i, t := range topos {
		if done == n {
			break
		}
		if t.N > 16 || t.N < 2 {
			continue
		}
		k := &kits[i%len(kits)]
		key := fmt.Sprintf("engine/%s/%s", t.Name, k.name)
		c := newTopoCircuit(t, true)
		rng := r.Rand(key)
		vals := genValues(rng, k.mod, len(c.Vals), "mixed")
		ref := t.refEval(k.mod, vals)
		want := t.expectedTap(ref)
		nonce := newNonce()
		var err error
		pan, stack := vcore.Catch(func() { err = test.IsSolved(c, c.assignment(nonce, vals), k.mod) })
		tap := takeTap(nonce)
		r.Eval(key, true)
		done++
		if pan != nil {
			err = fmt.Errorf("panic: %v\n%s", pan, stack)
		}
		if err != nil {
			if tap != nil && !eqVec(tap, want) && t.permutedPerWire(tap, want) {
				r.Count("testengine.rejected-consistently-with-wrong-export", 1)
				continue
			}
			// is it the same verdict as the compiled circuit? then it is already reported there
			if ccs, cerr := compile(k, "r1cs", newTopoCircuit(t, true)); cerr == nil {
				w, _ := frontend.NewWitness(c.assignment(newNonce(), vals), k.mod)
				if serr, _ := solve(ccs, w); serr != nil {
					r.Count("testengine.rejected-like-compiled-circuit", 1)
					continue
				}
			}
			r.Violation("testengine/rejects-honest-gkr-circuit", short(err), replayOf(t, k, "engine", vals, nil))
			continue
		}
		r.Count("testengine.accepted", 1)
		if tap != nil && !eqVec(tap, want) {
			r.Violation("testengine/accepted-with-wrong-exported-values", fmt.Sprintf("exported %v expected %v", strs(tap), strs(want)), replayOf(t, k, "engine", vals, nil))
		}
	}
}

var _ = big.NewInt
