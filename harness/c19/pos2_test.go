//go:build verif

package c19

import (
	"fmt"
	"math/big"
	"strings"

	"github.com/consensys/gnark-crypto/ecc"
	fr377 "github.com/consensys/gnark-crypto/ecc/bls12-377/fr"
	nativePos2 "github.com/consensys/gnark-crypto/ecc/bls12-377/fr/poseidon2"
	"github.com/consensys/gnark/constraint/solver"
	"github.com/consensys/gnark/frontend"
	"github.com/consensys/gnark/std/permutation/poseidon2"
	gkrp2 "github.com/consensys/gnark/std/permutation/poseidon2/gkr-poseidon2"

	"github.com/consensys/gnark/verifharness/internal/adversary"
	"github.com/consensys/gnark/verifharness/internal/vcore"
)

// pos2Circuit: n Poseidon2 compressions through the GKR gadget; optionally every
// result is asserted equal to the plain (non-GKR) Poseidon2 gadget's result.
type pos2Circuit struct {
	Nonce frontend.Variable `gnark:",public"`
	A, B  []frontend.Variable

	assert bool
}

func (c *pos2Circuit) Define(api frontend.API) error {
	g := gkrp2.NewGkrCompressions(api)
	var plain *poseidon2.Permutation
	if c.assert {
		var err error
		if plain, err = poseidon2.NewPoseidon2(api); err != nil {
			return err
		}
	}
	outs := make([]frontend.Variable, len(c.A))
	for i := range c.A {
		outs[i] = g.Compress(c.A[i], c.B[i])
		if c.assert {
			api.AssertIsEqual(outs[i], plain.Compress(c.A[i], c.B[i]))
		}
	}
	_, err := api.Compiler().NewHint(tapHint, 1, append([]frontend.Variable{c.Nonce}, outs...)...)
	return err
}

func pos2Assignment(nonce *big.Int, a, b []*big.Int) *pos2Circuit {
	c := &pos2Circuit{Nonce: nonce, A: make([]frontend.Variable, len(a)), B: make([]frontend.Variable, len(b))}
	for i := range a {
		c.A[i], c.B[i] = new(big.Int).Set(a[i]), new(big.Int).Set(b[i])
	}
	return c
}

// nativeCompress is gnark-crypto's Poseidon2 compression over bls12-377 (the reference).
func nativeCompress(a, b *big.Int) (*big.Int, error) {
	p := nativePos2.GetDefaultParameters()
	perm := nativePos2.NewPermutation(2, p.NbFullRounds, p.NbPartialRounds)
	var x, y fr377.Element
	x.SetBigInt(a)
	y.SetBigInt(b)
	res, err := perm.Compress(x.Marshal(), y.Marshal())
	if err != nil {
		return nil, err
	}
	return new(big.Int).SetBytes(res), nil
}

func findPermuteHint() (solver.HintID, solver.Hint, bool) {
	for _, h := range solver.GetRegisteredHints() {
		if strings.HasSuffix(solver.GetHintName(h), "gkr-poseidon2.permuteHint") {
			return solver.GetHintID(h), h, true
		}
	}
	return 0, nil, false
}

func runPoseidon2(r *vcore.Run) {
	gkrp2.RegisterGkrSolverOptions(ecc.BLS12_377)
	k := &kits[1]
	if k.id != ecc.BLS12_377 {
		panic("kit order")
	}
	permID, permFn, ok := findPermuteHint()
	if !ok {
		r.Inconclusive("gkr-poseidon2 permuteHint not found in the hint registry")
		return
	}
	type job struct {
		n int
		b string
	}
	// the circuits are large (about 10^5 constraints per log2(instances)): few sizes in the quick tier
	jobs := []job{{1, "scs"}, {1, "r1cs"}, {2, "scs"}, {2, "r1cs"}, {3, "scs"}}
	if r.Thorough() {
		jobs = nil
		for _, n := range []int{1, 2, 3, 4, 5, 8} {
			for _, b := range builders {
				jobs = append(jobs, job{n, b})
			}
		}
	}
	vcore.Parallel(len(jobs), 4, func(ji int) {
		n, b := jobs[ji].n, jobs[ji].b
		key := fmt.Sprintf("pos2/n%d/%s", n, b)
		mk := func(assert bool) *pos2Circuit {
			return &pos2Circuit{A: make([]frontend.Variable, n), B: make([]frontend.Variable, n), assert: assert}
		}
		ccsA, errA := compile(k, b, mk(true))
		ccsB, errB := compile(k, b, mk(false))
		if errA != nil || errB != nil {
			err := errA
			if err == nil {
				err = errB
			}
			r.Eval(key+"/compile", true)
			sig := "pos2/compile-fails"
			if n == 1 && strings.Contains(err.Error(), "index out of range") {
				sig = "compile/single-instance:verify-panics-index-out-of-range"
			}
			r.Violation(sig, short(err), map[string]any{"n": n, "builder": b, "circuit": "one gkr-poseidon2 Compress call"})
			return
		}
		r.Count("pos2.constraints", ccsB.GetNbConstraints())
		nSets := r.Pick(1, 3)
		var a0, b0 []*big.Int
		for vi := 0; vi < nSets; vi++ {
			rng := r.Rand(fmt.Sprintf("%s/v%d", key, vi))
			mode := []string{"mixed", "random", "edges", "zeros", "small"}[(vi+ji)%5]
			a := genValues(rng, k.mod, n, mode)
			bb := genValues(rng, k.mod, n, mode)
			if vi == 0 {
				a0, b0 = a, bb
			}
			want := make([]*big.Int, n)
			for i := range want {
				var err error
				if want[i], err = nativeCompress(a[i], bb[i]); err != nil {
					r.Inconclusive("native poseidon2: " + err.Error())
					return
				}
			}
			r.Eval(fmt.Sprintf("%s/v%d", key, vi), true)
			rep := map[string]any{"n": n, "builder": b, "a": strs(a), "b": strs(bb), "expected": strs(want)}
			for _, variant := range []struct {
				name string
				ccs  interface {
					GetNbConstraints() int
				}
			}{{"gkr-only", ccsB}, {"gkr-vs-plain-gadget", ccsA}} {
				nonce := newNonce()
				w, _ := frontend.NewWitness(pos2Assignment(nonce, a, bb), k.mod)
				var err error
				if variant.name == "gkr-only" {
					err, _ = solve(ccsB, w)
				} else {
					err, _ = solve(ccsA, w)
				}
				tap := takeTap(nonce)
				if err != nil {
					r.Violation("pos2/honest-rejected:"+variant.name, short(err), rep)
					continue
				}
				r.Count("pos2.honest-accepted", 1)
				r.Count("honest.solves-accepted", 1)
				if tap == nil {
					r.Inconclusive("pos2 tap did not run")
					continue
				}
				r.Count("pos2.outputs-compared-with-gnark-crypto", n)
				r.Count("honest.tap-compared", 1)
				r.Count("honest.exported-values-compared", n)
				if !eqVec(tap, want) {
					r.Violation("pos2/gkr-compression-differs-from-gnark-crypto", fmt.Sprintf("got %v want %v", strs(tap), strs(want)), rep)
				}
			}
			r.SampleClass("pos2/honest", rep)
			if n == 2 && vi == 0 && r.Thorough() {
				// the asserting circuit through the real prover and verifier of the builder's back-end
				nonce := newNonce()
				w, _ := frontend.NewWitness(pos2Assignment(nonce, a, bb), k.mod)
				stage, err := proveVerify(b, ccsA, w)
				takeTap(nonce)
				backend := map[string]string{"r1cs": "groth16", "scs": "plonk"}[b]
				if err != nil {
					r.Violation("provers/"+backend+"-fails-on-honest-gkr-poseidon2-circuit:"+stage, short(err), rep)
				} else {
					r.Count("provers.verified", 1)
					r.Count("provers.verified."+backend+".gkr-poseidon2", 1)
				}
			}
		}

		// ---- adversarial
		priv, info, err := k.redirect(ccsB)
		if err != nil {
			r.Inconclusive("pos2 redirect: " + err.Error())
			return
		}
		lay, _ := layoutOf(k, info)
		N := info.NbInstances
		target := 0
		if n > 1 {
			target = n - 1
		}
		lieOut := func(a, b *big.Int) bool { return a.Cmp(a0[target]) == 0 && b.Cmp(b0[target]) == 0 }
		permPlus := func(delta int64, altA bool) solver.Hint {
			return func(m *big.Int, ins, outs []*big.Int) error {
				if !lieOut(ins[0], ins[1]) {
					return permFn(m, ins, outs)
				}
				if altA { // the compression of (a+1, b): what the GKR circuit yields on the altered native input
					a1 := new(big.Int).Add(ins[0], big.NewInt(1))
					a1.Mod(a1, m)
					return permFn(m, []*big.Int{a1, ins[1]}, outs)
				}
				if err := permFn(m, ins, outs); err != nil {
					return err
				}
				outs[0].Add(outs[0], big.NewInt(delta)).Mod(outs[0], m)
				return nil
			}
		}
		type plie struct {
			name  string
			class string
			perm  solver.Hint
			h     hooks
		}
		rngL := r.Rand(key + "/lies")
		// instances with the same (a,b) as the target all receive the same lie
		sameAsTarget := func(i int) bool { return a0[i].Cmp(a0[target]) == 0 && b0[i].Cmp(b0[target]) == 0 }
		outsPlus := func(o []*big.Int) {
			for i := 0; i < n; i++ {
				if sameAsTarget(i) {
					addOne(o, i, k.mod)
				}
			}
		}
		insPlus := func(in []*big.Int) { // input layout: wire x (N values) then wire y (N values)
			for i := 0; i < n; i++ {
				if sameAsTarget(i) {
					addOne(in, i, k.mod)
				}
			}
		}
		plies := []plie{
			{name: "control", class: "control"},
			{name: "permute-hint+1/gkr-honest", class: "hint-only", perm: permPlus(1, false)},
			{name: "permute-hint+1&gkr-output+1/genuine-proof", class: "outputs", perm: permPlus(1, false), h: hooks{MutateOuts: outsPlus}},
			{name: "permute-hint+1&gkr-output+1/own-proof", class: "outputs+own-proof", perm: permPlus(1, false), h: hooks{MutateOuts: outsPlus, OwnProof: true}},
			{name: "permute-hint&gkr-run-on-(a+1,b)", class: "inputs", perm: permPlus(0, true), h: hooks{MutateIns: insPlus}},
			{name: "gkr-output+1-only", class: "outputs", h: hooks{MutateOuts: outsPlus}},
			{name: "proof-sumcheck-coeff+1", class: "proof", h: hooks{MutateProof: func(pr []*big.Int) {
				if len(lay.polyIdx) > 0 && lay.total == len(pr) {
					addOne(pr, lay.polyIdx[rngL.IntN(len(lay.polyIdx))], k.mod)
				} else {
					addOne(pr, 0, k.mod)
				}
			}}},
			{name: "proof-final-eval-claim+1", class: "proof", h: hooks{MutateProof: func(pr []*big.Int) {
				if len(lay.finalIdx) > 0 && lay.total == len(pr) {
					addOne(pr, lay.finalIdx[rngL.IntN(len(lay.finalIdx))], k.mod)
				} else {
					addOne(pr, len(pr)-1, k.mod)
				}
			}}},
			{name: "proof-shifted-by-one", class: "proof", h: hooks{MutateProof: func(pr []*big.Int) { rotate(pr) }}},
			{name: "proof-truncated", class: "proof", h: hooks{MutateProof: func(pr []*big.Int) {
				for i := len(pr) / 2; i < len(pr); i++ {
					pr[i].SetUint64(0)
				}
			}}},
			{name: "proof-zeros", class: "proof", h: hooks{MutateProof: func(pr []*big.Int) {
				for i := range pr {
					pr[i].SetUint64(0)
				}
			}}},
		}
		_ = N
		for li := range plies {
			l := &plies[li]
			opts, get := k.lyingOptions(info, l.h)
			opts = append(opts, adversary.CommitmentAsHash(), adversary.FixedMask())
			if l.perm != nil {
				opts = append(opts, solver.OverrideHint(permID, l.perm))
			}
			nonce := newNonce()
			w, _ := frontend.NewWitness(pos2Assignment(nonce, a0, b0), k.mod)
			err, pan := solve(priv, w, opts...)
			takeTap(nonce)
			tr := get()
			r.Count("adv.hint-calls-intercepted", tr.SolveCalls+tr.ProveCalls)
			r.Eval(key+"/adv/"+l.name, true)
			rep := map[string]any{"n": n, "builder": b, "a": strs(a0), "b": strs(b0), "lie": l.name}
			if tr.EvalMismatch {
				r.Inconclusive("pos2: adversary's own evaluation disagrees with the genuine solving hint")
				continue
			}
			switch {
			case l.class == "control":
				if err != nil {
					r.Violation("pos2/control-rejected", short(err), rep)
				} else {
					r.Count("pos2.adv.control-accepted", 1)
					r.Count("adv.control-accepted", 1)
				}
			case err == nil:
				r.Violation("pos2/forged:"+l.class, fmt.Sprintf("Solve succeeded under lie %s", l.name), rep)
			default:
				r.Count("pos2.adv.rejected", 1)
				r.Count("pos2.adv.lie."+l.name+".rejected", 1)
				r.Count("adv.rejected", 1)
				if l.class != "hint-only" {
					r.Count("adv.class."+l.class+".rejected", 1)
				}
				r.Count("adv.rejected-by."+errClass(err, pan), 1)
				r.SampleClass("pos2/adv/"+l.class, map[string]any{"lie": l.name, "n": n, "builder": b, "verdict": short(err)})
			}
		}
	})
}
