//go:build verif

package c19

import (
	"encoding/json"
	"fmt"
	"math/big"
	"os"
	"testing"

	"github.com/consensys/gnark/frontend"
)

// TestC19Replay re-runs the honest part of one recorded case:
//
//	C19_REPLAY=/verif/replay/C19/<file>.json go test -tags verif ./c19/ -run TestC19Replay -v
//
// Optional: C19_REPLAY_HASH / C19_REPLAY_CHAL / C19_REPLAY_BUILDER override the recorded configuration.
func TestC19Replay(t *testing.T) {
	p := os.Getenv("C19_REPLAY")
	if p == "" {
		t.Skip("set C19_REPLAY")
	}
	b, err := os.ReadFile(p)
	if err != nil {
		t.Fatal(err)
	}
	var rec struct {
		Signature string `json:"signature"`
		Case      struct {
			Topo    *topo    `json:"topology"`
			Curve   string   `json:"curve"`
			Builder string   `json:"builder"`
			Values  []string `json:"values"`
		} `json:"case"`
	}
	if err := json.Unmarshal(b, &rec); err != nil {
		t.Fatal(err)
	}
	if err := registerAll(); err != nil {
		t.Fatal(err)
	}
	tp := rec.Case.Topo
	if h := os.Getenv("C19_REPLAY_HASH"); h != "" {
		tp.Hash = h
	}
	if h := os.Getenv("C19_REPLAY_CHAL"); h != "" {
		tp.Chal = h
	}
	if h := os.Getenv("C19_REPLAY_BUILDER"); h != "" {
		rec.Case.Builder = h
	}
	var k *curveKit
	for i := range kits {
		if kits[i].name == rec.Case.Curve {
			k = &kits[i]
		}
	}
	fmt.Println("signature:", rec.Signature)
	fmt.Println("topology: ", tp.String(), "curve", k.name, "builder", rec.Case.Builder)
	c := newTopoCircuit(tp, false)
	vals := make([]*big.Int, len(c.Vals))
	for i := range vals {
		vals[i] = new(big.Int)
		if i < len(rec.Case.Values) {
			vals[i].SetString(rec.Case.Values[i], 10)
		}
	}
	ccs, err := compile(k, rec.Case.Builder, c)
	if err != nil {
		fmt.Println("compile:", short(err))
		return
	}
	if info, ok := k.info(ccs); ok {
		if hangs, detail := hangProbe(info); hangs {
			fmt.Println("hang probe:", detail)
			return
		}
	}
	nonce := newNonce()
	w, _ := frontend.NewWitness(c.assignment(nonce, vals), k.mod)
	err, _ = solve(ccs, w)
	tap := takeTap(nonce)
	want := tp.expectedTap(tp.refEval(k.mod, vals))
	fmt.Println("solve (no assertion):", short(err))
	fmt.Println("exported:", strs(tap))
	fmt.Println("expected:", strs(want))
	fmt.Println("equal:", tap != nil && eqVec(tap, want))
	cA := newTopoCircuit(tp, true)
	if ccsA, err := compile(k, rec.Case.Builder, cA); err == nil {
		w, _ := frontend.NewWitness(cA.assignment(newNonce(), vals), k.mod)
		err, _ = solve(ccsA, w)
		fmt.Println("solve (asserting):", short(err))
	}
}
