//go:build verif

package c19

import (
	"encoding/json"
	"fmt"
	"math/big"
	"os"
	"testing"

	"github.com/consensys/gnark/frontend"

	"github.com/consensys/gnark/verifharness/internal/vcore"
)

// TestC19Replay re-runs the honest part of one recorded case:
//
//	C19_REPLAY=/verif/replay/C19/<file>.json go test -tags verif ./c19/ -run TestC19Replay -v
//
// Optional: C19_REPLAY_HASH / C19_REPLAY_CHAL / C19_REPLAY_BUILDER override the recorded configuration.
func TestC19Replay(t *testing.T) {
	p := os.Getenv("C19_REPLAY")
	if p == "" {
		t.Skip("set C19_REPLAY")
	}
	b, err := os.ReadFile(p)
	if err != nil {
		t.Fatal(err)
	}
	var rec struct {
		Signature string `json:"signature"`
		Case      struct {
			Topo    *topo    `json:"topology"`
			Curve   string   `json:"curve"`
			Builder string   `json:"builder"`
			Values  []string `json:"values"`
			// large batches: the inputs are regenerated from (VERIF_SEED = recorded seed, label)
			LargePattern string `json:"large_pattern"`
			Instances    int    `json:"instances"`
			ExportInputs bool   `json:"export_inputs"`
			RngLabel     string `json:"values_rng_label"`
		} `json:"case"`
		Seed int64 `json:"seed"`
	}
	if err := json.Unmarshal(b, &rec); err != nil {
		t.Fatal(err)
	}
	if err := registerAll(); err != nil {
		t.Fatal(err)
	}
	tp := rec.Case.Topo
	if rec.Case.LargePattern != "" && tp == nil {
		tp = largeTopo(rec.Case.LargePattern, rec.Case.Instances, rec.Case.ExportInputs)
	}
	if h := os.Getenv("C19_REPLAY_HASH"); h != "" {
		tp.Hash = h
	}
	if h := os.Getenv("C19_REPLAY_CHAL"); h != "" {
		tp.Chal = h
	}
	if h := os.Getenv("C19_REPLAY_BUILDER"); h != "" {
		rec.Case.Builder = h
	}
	var k *curveKit
	for i := range kits {
		if kits[i].name == rec.Case.Curve {
			k = &kits[i]
		}
	}
	fmt.Println("signature:", rec.Signature)
	fmt.Println("topology: ", tp.String(), "curve", k.name, "builder", rec.Case.Builder)
	c := newTopoCircuit(tp, false)
	vals := make([]*big.Int, len(c.Vals))
	for i := range vals {
		vals[i] = new(big.Int)
		if i < len(rec.Case.Values) {
			vals[i].SetString(rec.Case.Values[i], 10)
		}
	}
	if rec.Case.RngLabel != "" {
		r := vcore.Start(t, "C19")
		if r.Seed != rec.Seed {
			t.Fatalf("set VERIF_SEED=%d (the seed of the recorded run) to regenerate the inputs", rec.Seed)
		}
		vals = genValues(r.Rand(rec.Case.RngLabel), k.mod, len(c.Vals), "random")
	}
	ccs, err := compile(k, rec.Case.Builder, c)
	if err != nil {
		fmt.Println("compile:", short(err))
		return
	}
	nonce := newNonce()
	w, _ := frontend.NewWitness(c.assignment(nonce, vals), k.mod)
	err, _ = solve(ccs, w)
	tap := takeTap(nonce)
	want := tp.expectedTap(tp.refEval(k.mod, vals))
	fmt.Println("solve (no assertion):", short(err))
	if len(want) <= 256 {
		fmt.Println("exported:", strs(tap))
		fmt.Println("expected:", strs(want))
	} else {
		for i := range want {
			if tap != nil && i < len(tap) && tap[i].Cmp(want[i]) != 0 {
				fmt.Printf("first difference at tap index %d (instance %d): exported %s expected %s\n", i, i%tp.N, tap[i], want[i])
				break
			}
		}
	}
	fmt.Println("equal:", tap != nil && eqVec(tap, want))
	cA := newTopoCircuit(tp, true)
	if ccsA, err := compile(k, rec.Case.Builder, cA); err == nil {
		w, _ := frontend.NewWitness(cA.assignment(newNonce(), vals), k.mod)
		err, _ = solve(ccsA, w)
		fmt.Println("solve (asserting):", short(err))
	}
}
