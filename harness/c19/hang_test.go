//go:build verif

package c19

import (
	"encoding/json"
	"fmt"
	"math/big"
	"os"
	"strings"
	"testing"
	"time"

	"github.com/consensys/gnark/constraint"
	"github.com/consensys/gnark/frontend"
	"github.com/consensys/gnark/internal/utils"

	"github.com/consensys/gnark/verifharness/internal/vcore"
)

type budgetExceeded struct{}

// hangProbe answers, without risking a hang, whether the native solving hint
// would return for this compiled GKR circuit.  It feeds gnark's own
// utils.BinarySearchFunc (the only loop of GkrSolveHint whose bound depends on
// data) exactly the arguments GkrSolveHint feeds it — per chunk start and per
// wire, the wire's sorted dependency list — through a callback that counts its
// calls and bails out far beyond any logarithmic bound.
func hangProbe(info constraint.GkrInfo) (hangs bool, detail string) {
	var chunks []int
	if pan, _ := vcore.Catch(func() { chunks = info.Circuit.Chunks(info.NbInstances) }); pan != nil {
		return false, ""
	}
	start := 0
	for _, end := range chunks {
		for wI, w := range info.Circuit {
			n := len(w.Dependencies)
			budget := 64 + 8*n
			calls := 0
			deps := w.Dependencies
			pan, _ := vcore.Catch(func() {
				utils.BinarySearchFunc(func(i int) int {
					calls++
					if calls > budget {
						panic(budgetExceeded{})
					}
					return deps[i].InputInstance
				}, n, start)
			})
			if _, ok := pan.(budgetExceeded); ok {
				inst := make([]int, n)
				for i := range deps {
					inst[i] = deps[i].InputInstance
				}
				return true, fmt.Sprintf("utils.BinarySearchFunc(dependency input instances %v of wire %d, end=%d, toFind=%d) made more than %d evaluations", inst, wI, n, start, budget)
			}
		}
		start = end
	}
	return false, ""
}

type hangCase struct {
	Topo    *topo    `json:"topology"`
	Curve   string   `json:"curve"`
	Builder string   `json:"builder"`
	Vals    []string `json:"values"`
}

// TestC19HangChild runs one honest Solve in a child process (the parent holds the watchdog).
func TestC19HangChild(t *testing.T) {
	p := os.Getenv("C19_HANG_CASE")
	if p == "" {
		t.Skip("child only")
	}
	b, err := os.ReadFile(p)
	if err != nil {
		t.Fatal(err)
	}
	var hc hangCase
	if err := json.Unmarshal(b, &hc); err != nil {
		t.Fatal(err)
	}
	if err := registerAll(); err != nil {
		t.Fatal(err)
	}
	var k *curveKit
	for i := range kits {
		if kits[i].name == hc.Curve {
			k = &kits[i]
		}
	}
	c := newTopoCircuit(hc.Topo, false)
	ccs, err := compile(k, hc.Builder, c)
	if err != nil {
		t.Fatal(err)
	}
	vals := make([]*big.Int, len(hc.Vals))
	for i := range vals {
		vals[i], _ = new(big.Int).SetString(hc.Vals[i], 10)
	}
	w, _ := frontend.NewWitness(c.assignment(newNonce(), vals), k.mod)
	fmt.Println("C19-CHILD: solving")
	_, err = ccs.Solve(w)
	fmt.Println("C19-CHILD: SOLVE RETURNED", err)
}

// confirmHang runs the predicted hang for real in a child process under a watchdog.
// verdict: +1 the child did not return (confirmed), -1 Solve returned in the child (probe refuted), 0 the child did not get as far as Solve.
func confirmHang(r *vcore.Run, t *topo, k *curveKit, b string, vals []*big.Int) (verdict int, note string) {
	dir := vcore.Root() + "/work/C19-children"
	_ = os.MkdirAll(dir, 0o755)
	p := fmt.Sprintf("%s/hangcase-%s-seed%d.json", dir, r.Tier, r.Seed)
	js, _ := json.Marshal(hangCase{Topo: t, Curve: k.name, Builder: b, Vals: strs(vals)})
	if err := os.WriteFile(p, js, 0o644); err != nil {
		return 0, err.Error()
	}
	res := r.RunChild("TestC19HangChild", "hang", []string{"C19_HANG_CASE=" + p}, 60*time.Second)
	log, _ := os.ReadFile(res.LogPath)
	s := string(log)
	switch {
	case strings.Contains(s, "C19-CHILD: SOLVE RETURNED"):
		return -1, "Solve returned in the child process"
	case res.TimedOut && strings.Contains(s, "C19-CHILD: solving"):
		inLoop := strings.Contains(s, "BinarySearchFunc") || strings.Contains(s, "GkrSolveHint")
		return 1, fmt.Sprintf("re-run in a child process: Solve did not return within 60s; goroutine dump mentions the solving hint: %v", inLoop)
	default:
		return 0, "child process did not reach Solve: " + short(fmt.Errorf("%s", res.Output))
	}
}
