//go:build verif

package c19

import (
	"errors"
	"fmt"
	"math/big"
	"time"

	"github.com/consensys/gnark-crypto/ecc"
	"github.com/consensys/gnark/backend/witness"
	"github.com/consensys/gnark/constraint"
	"github.com/consensys/gnark/constraint/solver"
	"github.com/consensys/gnark/frontend"
	"github.com/consensys/gnark/frontend/cs/r1cs"
	"github.com/consensys/gnark/frontend/cs/scs"
	"github.com/consensys/gnark/std/gkr"
	stdHash "github.com/consensys/gnark/std/hash"
	"github.com/consensys/gnark/std/hash/mimc"

	cv377 "github.com/consensys/gnark/verifharness/c19/cv_bls12377"
	cv254 "github.com/consensys/gnark/verifharness/c19/cv_bn254"
	"github.com/consensys/gnark/verifharness/internal/vcore"
)

// hooks / trace: curve-independent mirror of cv.Hooks / cv.Trace.
type hooks struct {
	MutateIns   func(ins []*big.Int)
	MutateOuts  func(outs []*big.Int)
	OwnProof    bool
	MutateProof func(proof []*big.Int)
}

type trace struct {
	SolveCalls, ProveCalls                                              int
	SolveIns, UsedIns, GenuineOuts, GivenOuts, GenuineProof, GivenProof []*big.Int
	OwnProofErr                                                         error
	EvalMismatch                                                        bool
}

type curveKit struct {
	id       ecc.ID
	name     string
	mod      *big.Int
	redirect func(ccs constraint.ConstraintSystem) (constraint.ConstraintSystem, constraint.GkrInfo, error)
	// lyingOptions returns the solver options for one Solve of a redirected system and a getter for what the wrappers saw.
	lyingOptions func(info constraint.GkrInfo, h hooks) ([]solver.Option, func() trace)
	info         func(ccs constraint.ConstraintSystem) (constraint.GkrInfo, bool)
	gateInfo     func(name string) (nbIn, degree, solvable int, ok bool)
	roundTrip    func(info constraint.GkrInfo, ins []*big.Int, base [][]byte) error
}

var kits = []curveKit{
	{
		id: ecc.BN254, name: "bn254", mod: cv254.Modulus(), redirect: cv254.Redirect, info: cv254.Info, gateInfo: cv254.GateInfo, roundTrip: cv254.NativeRoundTrip,
		lyingOptions: func(info constraint.GkrInfo, h hooks) ([]solver.Option, func() trace) {
			tr := new(cv254.Trace)
			o := cv254.Options(info, &cv254.Hooks{MutateIns: h.MutateIns, MutateOuts: h.MutateOuts, OwnProof: h.OwnProof, MutateProof: h.MutateProof}, tr)
			return o, func() trace {
				return trace{tr.SolveCalls, tr.ProveCalls, tr.SolveIns, tr.UsedIns, tr.GenuineOuts, tr.GivenOuts, tr.GenuineProof, tr.GivenProof, tr.OwnProofErr, tr.EvalMismatch}
			}
		},
	},
	{
		id: ecc.BLS12_377, name: "bls12-377", mod: cv377.Modulus(), redirect: cv377.Redirect, info: cv377.Info, gateInfo: cv377.GateInfo, roundTrip: cv377.NativeRoundTrip,
		lyingOptions: func(info constraint.GkrInfo, h hooks) ([]solver.Option, func() trace) {
			tr := new(cv377.Trace)
			o := cv377.Options(info, &cv377.Hooks{MutateIns: h.MutateIns, MutateOuts: h.MutateOuts, OwnProof: h.OwnProof, MutateProof: h.MutateProof}, tr)
			return o, func() trace {
				return trace{tr.SolveCalls, tr.ProveCalls, tr.SolveIns, tr.UsedIns, tr.GenuineOuts, tr.GivenOuts, tr.GenuineProof, tr.GivenProof, tr.OwnProofErr, tr.EvalMismatch}
			}
		},
	},
}

// constHashes are test hashes (the Fiat-Shamir challenge is the constant): honest runs only.
var constHashes = map[string]int{"c19-const-1": -1, "c19-const-20": -20, "c19-const-7": 7}

type constPseudoHash int

func (c constPseudoHash) Sum() frontend.Variable     { return int(c) }
func (c constPseudoHash) Write(...frontend.Variable) {}
func (c constPseudoHash) Reset()                     {}

// registerAll registers gates and Fiat-Shamir hashes on both sides: std/gkr +
// std/hash for the in-circuit verifier, internal/gkr/<curve> +
// constraint/<curve> for the native solver / prover.
func registerAll() error {
	for i := range gateDefs {
		g := &gateDefs[i]
		if g.builtin {
			continue
		}
		if err := gkr.RegisterGate(gkr.GateName(g.name), g.fe, g.nbIn, g.opts...); err != nil {
			return fmt.Errorf("std/gkr RegisterGate %s: %w", g.name, err)
		}
	}
	if err := cv254.RegisterGates(); err != nil {
		return fmt.Errorf("bn254 gates: %w", err)
	}
	if err := cv377.RegisterGates(); err != nil {
		return fmt.Errorf("bls12-377 gates: %w", err)
	}
	cv254.RegisterHashes(constHashes)
	cv377.RegisterHashes(constHashes)
	stdHash.Register("mimc", func(api frontend.API) (stdHash.FieldHasher, error) {
		m, err := mimc.NewMiMC(api)
		return &m, err
	})
	for name, c := range constHashes {
		c := c
		stdHash.Register(name, func(frontend.API) (stdHash.FieldHasher, error) { return constPseudoHash(c), nil })
	}
	return nil
}

var builders = []string{"r1cs", "scs"}

func compile(k *curveKit, builder string, c frontend.Circuit) (ccs constraint.ConstraintSystem, err error) {
	pan, stack := vcore.Catch(func() {
		if builder == "r1cs" {
			ccs, err = frontend.Compile(k.mod, r1cs.NewBuilder, c)
		} else {
			ccs, err = frontend.Compile(k.mod, scs.NewBuilder, c)
		}
	})
	if pan != nil {
		return nil, fmt.Errorf("compile panic: %v\n%s", pan, stack)
	}
	return ccs, err
}

var errWatchdog = errors.New("c19: Solve did not return within the watchdog")

const solveWatchdog = 6 * time.Minute

// solve runs the real solver under a generous watchdog (a Solve that never
// returns leaves its goroutine behind; the case is then inconclusive).
func solve(ccs constraint.ConstraintSystem, w witness.Witness, opts ...solver.Option) (err error, panicked bool) {
	type res struct {
		err error
		pan bool
	}
	ch := make(chan res, 1)
	go func() {
		var e error
		pan, stack := vcore.Catch(func() { _, e = ccs.Solve(w, opts...) })
		if pan != nil {
			ch <- res{fmt.Errorf("panic: %v\n%s", pan, stack), true}
			return
		}
		ch <- res{e, false}
	}()
	select {
	case x := <-ch:
		return x.err, x.pan
	case <-time.After(solveWatchdog):
		return errWatchdog, false
	}
}

// watchdogged records an inconclusive case when err is the watchdog's.
func watchdogged(r *vcore.Run, err error) bool {
	if errors.Is(err, errWatchdog) {
		r.Inconclusive("Solve did not return within the watchdog")
		return true
	}
	return false
}
