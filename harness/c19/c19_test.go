//go:build verif

// Package c19 is the runtime monitor of property C19: a computation delegated
// to the GKR sub-protocol (std/gkr) yields exactly the values a direct
// evaluation yields, and a prover whose solving / proving hints answer
// anything else cannot satisfy the circuit.
package c19

import (
	"fmt"
	"math/big"
	"strings"
	"testing"
	"time"

	"github.com/consensys/gnark/constraint"
	"github.com/consensys/gnark/frontend"
	"github.com/consensys/gnark/std/gkr"

	"github.com/consensys/gnark/verifharness/internal/adversary"
	"github.com/consensys/gnark/verifharness/internal/c06mon"
	"github.com/consensys/gnark/verifharness/internal/vcore"
)

const workers = 8

func TestC19(t *testing.T) {
	r := vcore.Start(t, "C19")
	if err := registerAll(); err != nil {
		t.Fatalf("BROKEN-CHECK property=C19: registration failed: %v", err)
	}
	// C06 monitor on: "Solve succeeded" is re-validated independently for a share of the solutions
	mon := c06mon.Install(r, r.Pick(8, 16))
	defer mon.Uninstall()

	phase := func(name string, f func()) {
		t0 := time.Now()
		f()
		r.Set("phase_seconds."+name, time.Since(t0).Seconds())
		fmt.Printf("phase %-12s %.1fs\n", name, time.Since(t0).Seconds())
	}
	checkRegistry(r)
	topos := genTopologies(r)
	phase("topologies", func() { runTopologies(r, topos) })
	phase("large", func() { runLarge(r) })
	phase("poseidon2", func() { runPoseidon2(r) })
	phase("provers", func() { runProvers(r, topos) })
	phase("testengine", func() { runTestEngine(r, topos) })

	r.Count("tap.hint-calls", int(tapCalls.Load()))
	for _, c := range []string{
		"honest.solves-accepted", "honest.tap-compared", "honest.exported-values-compared",
		"adv.hint-calls-intercepted", "adv.control-accepted", "adv.rejected",
		"adv.class.outputs.rejected", "adv.class.outputs+own-proof.rejected", "adv.class.proof.rejected", "adv.class.inputs.rejected",
		"topo.with-series-dependencies", "topo.with-fan-out", "topo.with-custom-gates",
		"large.accepted", "large.cases.instances=2048", "large.cases.instances=4096",
		"pos2.honest-accepted", "pos2.adv.rejected", "provers.verified", "testengine.accepted",
	} {
		r.Require(c, 1)
	}
	r.Finish("exploration",
		"distinct = (topology, curve, builder, input set, deviation); non-trivial = the honest case solved and its exported values were compared with the big.Int evaluation, or the deviation really changed an exported value / a proof element / a native input and the verdict of Solve was observed",
		[]string{
			"Fiat-Shamir soundness is only claimed for hash \"mimc\" with the challenge derived from a commitment to inputs and outputs (or from the outputs); constant test hashes and challenge-less use are run honestly only",
			"in solve-only runs the commitment is SHA-256 of the committed values (adversary.CommitmentAsHash), R1CS mask fixed",
			"rejection of a deviation holds up to a soundness error of about (depth*degree*log N)/|F| per case; an accepted deviation is reported as a violation",
			"custom gates are the harness's own (degree <= 4); gnark's gkr-poseidon2 gates are used as shipped",
			"one GKR sub-circuit per circuit (the constraint system supports only one)",
		})
}

// ---------------------------------------------------------------- registry

func checkRegistry(r *vcore.Run) {
	for i := range gateDefs {
		g := &gateDefs[i]
		if g.builtin {
			continue
		}
		fe := gkr.GetGate(gkr.GateName(g.name))
		if fe == nil {
			r.Violation("registry/gate-lost", g.name, g.name)
			continue
		}
		r.Eval("registry/"+g.name, true)
		r.Count("registry.gates-checked", 1)
		if fe.Degree() != g.degree || fe.NbIn() != g.nbIn {
			r.Violation("registry/frontend-gate-degree-wrong", fmt.Sprintf("gate %s: std/gkr recorded degree %d nbIn %d, polynomial has degree %d nbIn %d", g.name, fe.Degree(), fe.NbIn(), g.degree, g.nbIn), g.name)
		}
		for k := range kits {
			nbIn, deg, sv, ok := kits[k].gateInfo(g.name)
			if !ok || nbIn != g.nbIn || deg != g.degree {
				r.Violation("registry/field-gate-degree-wrong", fmt.Sprintf("gate %s on %s: recorded ok=%v degree %d nbIn %d, polynomial has degree %d nbIn %d", g.name, kits[k].name, ok, deg, nbIn, g.degree, g.nbIn), g.name)
			}
			if sv != fe.SolvableVar() {
				r.Count("registry.solvable-var-differs-between-frontend-and-field", 1)
			}
		}
		r.SampleClass("registry", map[string]any{"gate": g.name, "degree": fe.Degree(), "solvable_var": fe.SolvableVar()})
	}
}

// ---------------------------------------------------------------- topologies

func genTopologies(r *vcore.Run) []*topo {
	n := r.Pick(30, 240)
	sizes := []int{2, 4, 8, 2, 16, 4, 1, 8, 2, 4, 32, 2, 8, 4, 64, 2, 4, 8, 16, 4}
	out := fixedTopologies()
	for i := 0; i < n; i++ {
		rng := r.Rand(fmt.Sprintf("topo/%d", i))
		N := sizes[i%len(sizes)]
		maxDepth := 1 + i%6
		pat := depPatterns[rng.IntN(len(depPatterns))]
		t := genTopo(rng, fmt.Sprintf("t%d", i), N, maxDepth, pat)
		switch {
		case i%7 == 3:
			names := []string{"c19-const-1", "c19-const-20", "c19-const-7"}
			t.Hash = names[rng.IntN(len(names))]
			t.Chal = []string{"none", "commit", "outputs"}[rng.IntN(3)]
		case i%11 == 5:
			t.Hash, t.Chal = "mimc", "none"
		case i%4 == 1:
			t.Hash, t.Chal = "mimc", "outputs"
		default:
			t.Hash, t.Chal = "mimc", "commit"
		}
		out = append(out, t)
	}
	return out
}

// fixedTopologies are hand-written shapes run at every seed: the minimal forms
// of the dependency / size patterns that matter (non-involutive instance order,
// dependencies on two input wires at different instances, the same variable in
// both halves of a wire's assignment, a single instance, gnark's own Merkle
// benchmark shape).
func fixedTopologies() []*topo {
	in := wireSpec{Op: "in"}
	mulXY := []wireSpec{in, in, {Op: "mul", In: []int{0, 1}}}
	ts := []*topo{
		{Name: "fixed/three-cycle-instance-order", N: 4, Wires: mulXY, Hash: "mimc", Chal: "commit", DepPattern: "single",
			Deps: []depSpec{{InWire: 0, OutWire: 2, InInst: 0, OutInst: 2}}},
		{Name: "fixed/deps-on-two-input-wires", N: 4, Wires: mulXY, Hash: "mimc", Chal: "commit", DepPattern: "dag",
			Deps: []depSpec{{InWire: 0, OutWire: 2, InInst: 1, OutInst: 0}, {InWire: 1, OutWire: 2, InInst: 3, OutInst: 2}}},
		{Name: "fixed/single-instance", N: 1, Wires: mulXY, Hash: "mimc", Chal: "commit", DepPattern: "none"},
		{Name: "fixed/single-instance-fan-out", N: 1, Hash: "mimc", Chal: "commit", DepPattern: "none",
			Wires: []wireSpec{in, {Op: "mul", In: []int{0, 0}}, {Op: "add", In: []int{1, 0}}, {Op: "mul", In: []int{1, 2}}}},
		{Name: "fixed/reverse-chain", N: 8, Wires: mulXY, Hash: "mimc", Chal: "commit", DepPattern: "chain-rev"},
		{Name: "fixed/merkle", N: 8, Wires: []wireSpec{in, in, {Op: "c19_fma", In: []int{0, 1, 1}}}, Hash: "mimc", Chal: "commit", DepPattern: "tree",
			Deps: []depSpec{{0, 2, 4, 3}, {1, 2, 4, 2}, {0, 2, 5, 1}, {1, 2, 5, 0}, {0, 2, 6, 5}, {1, 2, 6, 4}}},
	}
	for i := 7; i > 0; i-- {
		ts[4].Deps = append(ts[4].Deps, depSpec{InWire: 0, OutWire: 2, InInst: i - 1, OutInst: i})
	}
	// one variable bound to 15 of the 16 instances of an input wire, constant test hash
	same := &topo{Name: "fixed/same-variable-in-both-halves/constant-hash", N: 16, Hash: "c19-const-1", Chal: "none", DepPattern: "star",
		Wires: []wireSpec{in, in, {Op: "mul", In: []int{1, 1}}, {Op: "neg", In: []int{0}}}}
	same2 := &topo{Name: "fixed/same-variable-in-both-halves/mimc", N: 16, Hash: "mimc", Chal: "commit", DepPattern: "star", Wires: same.Wires}
	for i := 0; i < 16; i++ {
		if i != 14 {
			same.Deps = append(same.Deps, depSpec{InWire: 1, OutWire: 3, InInst: i, OutInst: 14})
			same2.Deps = append(same2.Deps, depSpec{InWire: 1, OutWire: 3, InInst: i, OutInst: 14})
		}
	}
	return append(ts, same, same2)
}

func (t *topo) usesCustom() bool {
	for _, w := range t.Wires {
		if w.Op != "in" && !gateByName[w.Op].builtin {
			return true
		}
	}
	return false
}

func runTopologies(r *vcore.Run, topos []*topo) {
	for _, t := range topos {
		r.Count(fmt.Sprintf("topo.instances=%d", t.N), 1)
		r.Count(fmt.Sprintf("topo.depth=%d", t.depth()), 1)
		r.Count("topo.deps="+t.DepPattern, 1)
		r.Count("topo.hash="+t.Hash+"/challenge="+t.Chal, 1)
		if len(t.Deps) > 0 {
			r.Count("topo.with-series-dependencies", 1)
		}
		if t.maxFanOut() > 1 {
			r.Count("topo.with-fan-out", 1)
		}
		if t.usesCustom() {
			r.Count("topo.with-custom-gates", 1)
		}
		for _, w := range t.Wires {
			if w.Op != "in" {
				r.Count("topo.gate."+w.Op, 1)
			}
		}
	}
	type job struct {
		t *topo
		k *curveKit
	}
	var jobs []job
	for _, t := range topos {
		for k := range kits {
			jobs = append(jobs, job{t, &kits[k]})
		}
	}
	vcore.Parallel(len(jobs), workers, func(i int) { runTopoOnCurve(r, jobs[i].t, jobs[i].k) })
}

func replayOf(t *topo, k *curveKit, builder string, vals []*big.Int, extra map[string]any) map[string]any {
	m := map[string]any{"topology": t, "topology_text": t.String(), "curve": k.name, "builder": builder, "values": strs(vals)}
	for a, b := range extra {
		m[a] = b
	}
	return m
}

func errClass(err error, panicked bool) string {
	switch {
	case panicked:
		return "panic"
	case err == nil:
		return "accepted"
	case strings.Contains(err.Error(), "is not satisfied"):
		return "constraint-not-satisfied"
	default:
		return "other-error"
	}
}

func short(err error) string {
	if err == nil {
		return ""
	}
	s := err.Error()
	if len(s) > 300 {
		s = s[:300]
	}
	return s
}

func runTopoOnCurve(r *vcore.Run, t *topo, k *curveKit) {
	for _, b := range builders {
		key := fmt.Sprintf("%s/%s/%s", t.Name, k.name, b)
		cA, cB := newTopoCircuit(t, true), newTopoCircuit(t, false)
		ccsA, errA := compile(k, b, cA)
		ccsB, errB := compile(k, b, cB)
		r.Count("compile.attempts", 2)
		if errA != nil || errB != nil {
			err := errA
			if err == nil {
				err = errB
			}
			r.Eval(key+"/compile", true)
			sig := "compile/api-accepted-topology-fails-to-compile"
			if strings.Contains(err.Error(), "index out of range") && t.N == 1 {
				sig = "compile/single-instance:verify-panics-index-out-of-range"
			}
			r.Count("compile.failed", 1)
			r.Violation(sig, short(err), replayOf(t, k, b, nil, nil))
			continue
		}
		r.Count("compile.ok", 2)
		r.Count("compile.constraints", ccsA.GetNbConstraints()+ccsB.GetNbConstraints())
		if cB.reordered.Load() > 0 {
			// observation, not part of the property: gkr.API.Solve permutes the caller's Import slices in place
			r.Count("observed.import-slices-reordered-in-place-by-Solve", 1)
			r.SampleClass("observed/import-slice-reordered", map[string]any{"topology": t.String(), "note": "the slice passed to gkr.API.Import was permuted in place by gkr.API.Solve"})
		}

		nSets := r.Pick(2, 3)
		var firstVals []*big.Int
		for vi := 0; vi < nSets; vi++ {
			rng := r.Rand(fmt.Sprintf("vals/%s/%s/%d", t.Name, k.name, vi))
			mode := valueModes[rng.IntN(len(valueModes))]
			vals := genValues(rng, k.mod, len(cA.Vals), mode)
			if vi == 0 {
				firstVals = vals
			}
			honestCase(r, t, k, b, fmt.Sprintf("%s/v%d", key, vi), mode, ccsA, ccsB, cA, vals)
		}

		// adversarial: only where the gadget is used the way it is meant to be secure
		if t.Hash != "mimc" || t.Chal == "none" {
			r.Count("adv.skipped-insecure-configuration", 1)
			continue
		}
		priv, info, err := k.redirect(ccsB)
		if err != nil {
			r.Inconclusive("redirect failed: " + err.Error())
			continue
		}
		lay, okLay := layoutOf(k, info)
		nAdvSets := r.Pick(1, 2)
		for vi := 0; vi < nAdvSets; vi++ {
			vals := firstVals
			if vi > 0 {
				rng := r.Rand(fmt.Sprintf("advvals/%s/%s/%d", t.Name, k.name, vi))
				vals = genValues(rng, k.mod, len(cA.Vals), "mixed")
			}
			big := ccsB.GetNbConstraints() > r.Pick(12000, 40000)
			for li := range lies {
				if big && lies[li].class != "control" && (li+len(t.Wires))%3 != 0 {
					r.Count("adv.lies-not-run-on-large-system", 1)
					continue
				}
				advCase(r, t, k, b, fmt.Sprintf("%s/a%d", key, vi), priv, info, lay, okLay, cB, vals, &lies[li])
			}
		}
	}
}

// honestCase: honest prover; every exported value must equal the big.Int
// evaluation (tap), and the circuit asserting equality with the direct
// in-circuit evaluation must be satisfied.
func honestCase(r *vcore.Run, t *topo, k *curveKit, b, key, mode string, ccsA, ccsB constraint.ConstraintSystem, c *topoCircuit, vals []*big.Int) {
	ref := t.refEval(k.mod, vals)
	want := t.expectedTap(ref)
	r.Eval(key, true)

	// (1) no in-circuit assertion: GKR verification alone, exported values read through the tap
	nonceB := newNonce()
	wB, err := frontend.NewWitness(c.assignment(nonceB, vals), k.mod)
	if err != nil {
		r.Inconclusive("witness: " + err.Error())
		return
	}
	errB, panB := solve(ccsB, wB)
	if watchdogged(r, errB) {
		return
	}
	tapB := takeTap(nonceB)
	tapOK := false
	switch {
	case errB != nil:
		r.Count("honest.rejected", 1)
		sig := "honest/gkr-verification-rejects-honest-prover"
		if t.Hash != "mimc" {
			sig += ":constant-challenge-hash"
		}
		if panB {
			sig = "honest/solve-panics"
		}
		r.Violation(sig, short(errB), replayOf(t, k, b, vals, map[string]any{"values_mode": mode}))
	case tapB == nil:
		r.Inconclusive("tap hint did not run")
	default:
		r.Count("honest.solves-accepted", 1)
		r.Count("honest.tap-compared", 1)
		r.Count("honest.exported-values-compared", len(want))
		if eqVec(tapB, want) {
			tapOK = true
			r.Count("honest.tap-equal", 1)
		} else {
			sig := "honest/exported-value-wrong"
			if t.permutedPerWire(tapB, want) {
				sig = "honest/exported-values-permuted-across-instances"
			}
			r.Count("honest.tap-differs", 1)
			r.Violation(sig, fmt.Sprintf("%s %s: exported %v, direct evaluation %v", k.name, b, strs(tapB), strs(want)),
				replayOf(t, k, b, vals, map[string]any{"values_mode": mode, "exported": strs(tapB), "expected": strs(want)}))
		}
	}

	// (2) the same circuit with every exported value asserted equal to the direct evaluation
	nonceA := newNonce()
	wA, _ := frontend.NewWitness(c.assignment(nonceA, vals), k.mod)
	errA, panA := solve(ccsA, wA)
	if watchdogged(r, errA) {
		return
	}
	tapA := takeTap(nonceA)
	switch {
	case errA != nil && errB != nil:
		// already reported for the circuit without assertions
		r.Count("honest.asserting-circuit-rejected-like-plain-circuit", 1)
	case errA == nil:
		r.Count("honest.solves-accepted", 1)
		r.Count("honest.asserting-circuit-accepted", 1)
		if tapA != nil {
			r.Count("honest.tap-compared", 1)
			if !eqVec(tapA, want) {
				r.Violation("honest/in-circuit-assertion-holds-but-exported-values-differ-from-reference", fmt.Sprintf("exported %v expected %v", strs(tapA), strs(want)), replayOf(t, k, b, vals, nil))
			}
		}
	case errB == nil && !tapOK:
		// same defect as reported above (exported values wrong): the assertion rightly fails
		r.Count("honest.asserting-circuit-rejected-consistently-with-wrong-export", 1)
	default:
		sig := "honest/asserting-circuit-rejects-honest-prover"
		if t.Hash != "mimc" {
			sig += ":constant-challenge-hash"
		}
		if panA {
			sig = "honest/solve-panics"
		}
		r.Violation(sig, short(errA), replayOf(t, k, b, vals, map[string]any{"values_mode": mode}))
	}
	r.SampleClass("honest/"+t.DepPattern, map[string]any{"topology": t.String(), "curve": k.name, "builder": b, "values": strs(vals), "exported": strs(tapB), "reference": strs(want), "solve_error": short(errB)})
}

// advCase: one deviation of the dishonest prover through the GkrInfo redirect.
func advCase(r *vcore.Run, t *topo, k *curveKit, b, key string, priv constraint.ConstraintSystem, info constraint.GkrInfo, lay proofLayout, okLay bool, c *topoCircuit, vals []*big.Int, l *lie) {
	rng := r.Rand("lie/" + key + "/" + l.name)
	h := l.build(rng, k.mod, t.N, lay)
	opts, get := k.lyingOptions(info, h)
	opts = append(opts, adversary.CommitmentAsHash(), adversary.FixedMask())
	nonce := newNonce()
	w, err := frontend.NewWitness(c.assignment(nonce, vals), k.mod)
	if err != nil {
		r.Inconclusive("witness: " + err.Error())
		return
	}
	err, pan := solve(priv, w, opts...)
	if watchdogged(r, err) {
		return
	}
	takeTap(nonce)
	tr := get()
	r.Count("adv.hint-calls-intercepted", tr.SolveCalls+tr.ProveCalls)
	if tr.SolveCalls == 0 {
		r.Inconclusive("solving hint not intercepted")
		return
	}
	if tr.EvalMismatch {
		r.Inconclusive("adversary's own evaluation disagrees with the genuine solving hint")
		return
	}
	changedOuts := !eqVec(tr.GenuineOuts, tr.GivenOuts)
	changedIns := h.MutateIns != nil && !eqVec(modAll(tr.SolveIns, k.mod), modAll(tr.UsedIns, k.mod))
	changedProof := tr.GenuineProof != nil && tr.GivenProof != nil && !eqVec(tr.GenuineProof, tr.GivenProof)
	deviated := changedOuts || changedIns || changedProof
	r.Eval(key+"/"+l.name, deviated || l.class == "control")
	cls := errClass(err, pan)
	rep := func() map[string]any {
		return replayOf(t, k, b, vals, map[string]any{"lie": l.name, "genuine_outputs": strs(tr.GenuineOuts), "given_outputs": strs(tr.GivenOuts),
			"genuine_proof": strs(tr.GenuineProof), "given_proof": strs(tr.GivenProof), "rng_label": "lie/" + key + "/" + l.name})
	}
	switch {
	case l.class == "control":
		if err != nil {
			r.Violation("adv/control-rejected:honest-hints-through-redirect", short(err), rep())
		} else {
			r.Count("adv.control-accepted", 1)
			if h.OwnProof {
				if changedProof {
					r.Inconclusive("the adversary's own prover does not reproduce the genuine proof")
				} else {
					r.Count("adv.own-prover-reproduces-genuine-proof", 1)
				}
			}
		}
	case !deviated:
		r.Count("adv.noop."+l.name, 1)
		if err != nil && tr.OwnProofErr == nil && !h.OwnProof {
			r.Violation("adv/no-deviation-but-rejected", short(err), rep())
		}
	case err == nil:
		what := "proof-element"
		if changedOuts {
			what = "exported-value"
		} else if changedIns {
			what = "native-inputs"
		}
		r.Count("adv.ACCEPTED."+l.name, 1)
		r.Violation("forged/"+l.class+":altered-"+what+"-accepted", fmt.Sprintf("%s %s lie=%s: Solve succeeded although the dishonest prover changed %s (%s)", k.name, b, l.name, what, t.String()), rep())
	default:
		r.Count("adv.rejected", 1)
		r.Count("adv.class."+l.class+".rejected", 1)
		r.Count("adv.lie."+l.name+".rejected", 1)
		r.Count("adv.rejected-by."+cls, 1)
		if pan {
			r.SampleClass("adv/panic", map[string]any{"lie": l.name, "error": short(err), "topology": t.String()})
		}
		if !okLay {
			r.Count("adv.layout-unknown", 1)
		}
		r.SampleClass("adv/"+l.class, map[string]any{"lie": l.name, "curve": k.name, "builder": b, "topology": t.String(), "verdict": short(err),
			"genuine_outputs": strs(tr.GenuineOuts), "given_outputs": strs(tr.GivenOuts), "proof_elements": len(tr.GivenProof), "changed_outputs": changedOuts, "changed_proof": changedProof, "changed_native_inputs": changedIns})
	}
}

func modAll(v []*big.Int, p *big.Int) []*big.Int {
	o := make([]*big.Int, len(v))
	for i := range v {
		o[i] = new(big.Int).Mod(v[i], p)
	}
	return o
}
