//go:build verif

package c19

import (
	"fmt"
	"math/big"
	"testing"

	"github.com/consensys/gnark/frontend"
)

func TestMin(t *testing.T) {
	if err := registerAll(); err != nil {
		t.Fatal(err)
	}
	k := &kits[0]
	try := func(name string, tp *topo, vals []int64) {
		c := newTopoCircuit(tp, false)
		ccs, err := compile(k, "r1cs", c)
		if err != nil {
			fmt.Println(name, "compile", short(err))
			return
		}
		v := make([]*big.Int, len(c.Vals))
		for i := range v {
			v[i] = big.NewInt(vals[i%len(vals)])
		}
		w, _ := frontend.NewWitness(c.assignment(newNonce(), v), k.mod)
		err, _ = solve(ccs, w)
		fmt.Println(name, tp.String(), "->", short(err))
	}
	mk := func(n int, wires []wireSpec, inW, outW int, skipI map[int]bool) *topo {
		tp := &topo{N: n, Hash: "c19-const-1", Chal: "none", Wires: wires}
		c := n - 2
		for i := 0; i < n; i++ {
			if i != c && !skipI[i] {
				tp.Deps = append(tp.Deps, depSpec{InWire: inW, OutWire: outW, InInst: i, OutInst: c})
			}
		}
		return tp
	}
	full := []wireSpec{{Op: "in"}, {Op: "in"}, {Op: "in"}, {Op: "add", In: []int{0, 2}}, {Op: "c19_quart", In: []int{1, 2}}, {Op: "sub", In: []int{0, 3}}, {Op: "neg", In: []int{2}}}
	for _, n := range []int{4, 8, 16} {
		try(fmt.Sprintf("full n=%d", n), mk(n, full, 1, 5, map[int]bool{10: true, 12: true}), []int64{1})
		try(fmt.Sprintf("full-all n=%d", n), mk(n, full, 1, 5, nil), []int64{1})
		try(fmt.Sprintf("full-all-vals n=%d", n), mk(n, full, 1, 5, nil), []int64{3, 5, 7, 11, 13})
	}
	w2 := []wireSpec{{Op: "in"}, {Op: "in"}, {Op: "mul", In: []int{1, 1}}, {Op: "neg", In: []int{0}}}
	for _, n := range []int{4, 8, 16} {
		try(fmt.Sprintf("w2 n=%d", n), mk(n, w2, 1, 3, nil), []int64{1})
		try(fmt.Sprintf("w2 n=%d", n), mk(n, w2, 1, 3, nil), []int64{3, 5, 7, 11})
	}
}
