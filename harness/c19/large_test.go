//go:build verif

package c19

import (
	"fmt"
	"math/big"
	"math/rand/v2"
	"os"
	"path/filepath"
	"strconv"
	"strings"
	"testing"
	"time"

	"github.com/consensys/gnark/frontend"

	"github.com/consensys/gnark/verifharness/internal/vcore"
)

// Large batches.  The native solving hint hands every run of independent
// instances to a worker pool in blocks of 1024 instances, and positions, per
// block, a cursor into each input wire's dependency list; none of that is
// exercised below 1025 instances.  These cases are z = x*y over 2048 .. 8192
// instances with dependency patterns that put block boundaries before, on and
// after dependencies.

var largePatterns = []string{
	"none",            // control: blocks of 1024, no dependency
	"chain-fwd",       // x[i+1] := z[i] for all i (every run has length 1)
	"chain-rev",       // x[i-1] := z[i]
	"tree",            // heap: x[j] := z[2j+1], y[j] := z[2j+2]
	"straddle-1024",   // x[1024] := z[1023], x[1025] := z[1024]: dependencies across the first block boundary
	"sparse-early",    // x[1] := z[0], y[2] := z[1]: one run of N-2 instances after two dependencies (blocks start past them)
	"sparse-mixed",    // dependencies at 1, 1024, 1025, 1500, N-1 on both input wires, long runs between them
	"last-into-first", // x[0] := z[N-1], y[5] := z[N-2]: the instance order is a long cycle
	"segments",        // chains of length 7: x[i] := z[i-1] unless 7 | i
}

func largeTopo(pattern string, n int, exportInputs bool) *topo {
	in := wireSpec{Op: "in"}
	t := &topo{Name: fmt.Sprintf("large/%s/%d", pattern, n), N: n, Hash: "mimc", Chal: "commit", DepPattern: pattern, ExportInputs: exportInputs,
		Wires: []wireSpec{in, in, {Op: "mul", In: []int{0, 1}}}}
	dep := func(inW, inInst, outInst int) {
		t.Deps = append(t.Deps, depSpec{InWire: inW, OutWire: 2, InInst: inInst, OutInst: outInst})
	}
	switch pattern {
	case "none":
	case "chain-fwd":
		for i := 1; i < n; i++ {
			dep(0, i, i-1)
		}
	case "chain-rev":
		for i := n - 1; i > 0; i-- {
			dep(0, i-1, i)
		}
	case "tree":
		for j := 0; j < n; j++ {
			if 2*j+1 < n {
				dep(0, j, 2*j+1)
			}
			if 2*j+2 < n {
				dep(1, j, 2*j+2)
			}
		}
	case "straddle-1024":
		dep(0, 1024, 1023)
		dep(0, 1025, 1024)
	case "sparse-early":
		dep(0, 1, 0)
		dep(1, 2, 1)
	case "sparse-mixed":
		dep(0, 1, 0)
		dep(0, 1024, 1023)
		dep(1, 1025, 1024)
		dep(0, 1500, 3)
		dep(1, n-1, n-2)
	case "last-into-first":
		dep(0, 0, n-1)
		dep(1, 5, n-2)
	case "segments":
		for i := 1; i < n; i++ {
			if i%7 != 0 {
				dep(0, i, i-1)
			}
		}
	default:
		panic("unknown large pattern " + pattern)
	}
	return t
}

// randomLargeTopo: a few to a few hundred random dependencies on both input
// wires, biased towards the instances around multiples of 1024; optionally a
// second gate with fan-out (u = z + x).  Acyclic by a random priority order.
func randomLargeTopo(rng *rand.Rand, name string, n int) *topo {
	in := wireSpec{Op: "in"}
	t := &topo{Name: name, N: n, Hash: "mimc", Chal: "commit", DepPattern: "random-large", ExportInputs: rng.IntN(2) == 0,
		Wires: []wireSpec{in, in, {Op: "mul", In: []int{0, 1}}}}
	out := 2
	if rng.IntN(3) == 0 {
		t.Wires = append(t.Wires, wireSpec{Op: "add", In: []int{2, 0}})
		out = 3
	}
	rank := rng.Perm(n)
	if rng.IntN(2) == 0 { // mostly forward dependencies
		for i := range rank {
			rank[i] = i
		}
	}
	pick := func() int {
		if rng.IntN(3) == 0 {
			b := 1024 * (1 + rng.IntN(n/1024))
			return (b - 2 + rng.IntN(5)) % n
		}
		return rng.IntN(n)
	}
	m := []int{2, 5, 12, 40, 300}[rng.IntN(5)]
	seen := map[[2]int]bool{}
	for len(t.Deps) < m {
		a, b, w := pick(), pick(), rng.IntN(2)
		if a == b {
			continue
		}
		if rank[a] < rank[b] {
			a, b = b, a
		}
		if seen[[2]int{w, a}] {
			continue
		}
		seen[[2]int{w, a}] = true
		t.Deps = append(t.Deps, depSpec{InWire: w, OutWire: out, InInst: a, OutInst: b})
	}
	return t
}

type largeJob struct {
	random  int // > 0: the i-th random large topology
	pattern string
	n       int
	k       *curveKit
	b       string
	adv     bool // also run a few deviations of the dishonest prover
}

func largeJobs(r *vcore.Run) []largeJob {
	var jobs []largeJob
	for pi, p := range largePatterns {
		for ki := range kits {
			for _, b := range builders {
				jobs = append(jobs, largeJob{pattern: p, n: 2048, k: &kits[ki], b: b, adv: p == "sparse-mixed" && b == "r1cs"},
					largeJob{pattern: p, n: 4096, k: &kits[ki], b: b, adv: r.Thorough() && p == "tree" && b == "r1cs"})
				if r.Thorough() {
					jobs = append(jobs, largeJob{pattern: p, n: 8192, k: &kits[ki], b: b})
				}
			}
		}
		if r.Quick() {
			jobs = append(jobs, largeJob{pattern: p, n: 8192, k: &kits[pi%2], b: "r1cs"})
		} else {
			jobs = append(jobs, largeJob{pattern: p, n: 16384, k: &kits[pi%2], b: builders[pi%2]})
		}
	}
	sizes := []int{2048, 4096, 2048, 8192}
	for i := 1; i <= r.Pick(12, 80); i++ {
		jobs = append(jobs, largeJob{random: i, pattern: "random-large", n: sizes[i%len(sizes)], k: &kits[i%2], b: builders[(i/2)%2]})
	}
	return jobs
}

func (j largeJob) batch() string {
	if j.random > 0 {
		return fmt.Sprintf("random-%d", j.random%2)
	}
	return fmt.Sprintf("n%d-%s", j.n, j.k.name)
}

func (j largeJob) String() string {
	return fmt.Sprintf("pattern=%s random=%d instances=%d curve=%s builder=%s", j.pattern, j.random, j.n, j.k.name, j.b)
}

// runLarge runs the large batches in child processes, one per (size, curve):
// the native solving hint works in gnark-crypto's worker-pool goroutines, where a
// panic (e.g. an index error of a mis-positioned dependency cursor) cannot be
// recovered and kills the process.  A dead child is a violation, with the case
// it was running.  The children write their replay files below
// replay/C19/large-batch/ (own root, so that file names do not collide).
func runLarge(r *vcore.Run) {
	var batches []string
	seen := map[string]bool{}
	for _, j := range largeJobs(r) {
		if b := j.batch(); !seen[b] {
			seen[b] = true
			batches = append(batches, b)
		}
	}
	childRoot := filepath.Join(vcore.Root(), "replay", "C19", "large-batch")
	_ = os.MkdirAll(childRoot, 0o755)
	if kf, err := os.ReadFile(filepath.Join(vcore.Root(), "known_findings.json")); err == nil {
		_ = os.WriteFile(filepath.Join(childRoot, "known_findings.json"), kf, 0o644)
	}
	vcore.Parallel(len(batches), 4, func(i int) {
		b := batches[i]
		// a crash loses the rest of the batch: resume after the crashed case (a few times)
		skip := 0
		for attempt := 0; attempt < 5; attempt++ {
			res := r.RunChild("TestC19LargeChild", fmt.Sprintf("large-%s-%d", b, attempt),
				[]string{"C19_LARGE_BATCH=" + b, fmt.Sprintf("C19_LARGE_SKIP=%d", skip), "VERIF_ROOT=" + childRoot}, time.Duration(r.Pick(20, 60))*time.Minute)
			if res.OK {
				r.Count("large.children-completed", 1)
				return
			}
			if res.TimedOut {
				r.Inconclusive("large-batch child watchdog: " + b)
				return
			}
			r.Count("large.children-CRASHED", 1)
			r.Eval(fmt.Sprintf("large-crash|%s|%d", b, attempt), true)
			r.Violation("large-batch/solver-crashes-the-process", "child process died; "+crashLine(res.Output)+"; running: "+firstLine(res.LastCase),
				map[string]any{"batch": b, "last_case": res.LastCase, "output": res.Output, "log": res.LogPath})
			var idx int
			if _, err := fmt.Sscanf(res.LastCase, "#%d ", &idx); err != nil {
				return
			}
			skip = idx + 1
		}
	})
}

func firstLine(s string) string {
	if i := strings.IndexByte(s, '\n'); i >= 0 {
		return s[:i]
	}
	return s
}

func crashLine(out string) string {
	for _, l := range strings.Split(out, "\n") {
		if strings.HasPrefix(l, "panic:") || strings.HasPrefix(l, "fatal error:") {
			return l
		}
	}
	return "no panic line in the output"
}

// TestC19LargeChild runs one batch of large cases sequentially (child process of TestC19).
func TestC19LargeChild(t *testing.T) {
	if !vcore.IsChild() {
		t.Skip("parent mode")
	}
	r := vcore.Start(t, "C19")
	if err := registerAll(); err != nil {
		t.Fatal(err)
	}
	batch := os.Getenv("C19_LARGE_BATCH")
	skip, _ := strconv.Atoi(os.Getenv("C19_LARGE_SKIP"))
	idx := 0
	for _, j := range largeJobs(r) {
		if j.batch() != batch {
			continue
		}
		if idx >= skip {
			vcore.ChildCaseStart(fmt.Sprintf("#%d %s", idx, j.String()), nil)
			largeCase(r, j)
		}
		idx++
	}
	r.ExportPartial()
}

func largeCase(r *vcore.Run, j largeJob) {
	t0 := time.Now()
	k, b := j.k, j.b
	var t *topo
	if j.random > 0 {
		t = randomLargeTopo(r.Rand(fmt.Sprintf("large-topo/%d", j.random)), fmt.Sprintf("large/random-%d/%d", j.random, j.n), j.n)
	} else {
		t = largeTopo(j.pattern, j.n, len(j.pattern)%2 == 0)
	}
	key := fmt.Sprintf("%s/%s/%s", t.Name, k.name, b)
	label := "vals/" + key
	rep := func(extra map[string]any) map[string]any {
		// the inputs are regenerated from (VERIF_SEED, label): 2*N field elements are not written out
		m := map[string]any{"large_pattern": j.pattern, "large_random_index": j.random, "instances": j.n, "export_inputs": t.ExportInputs, "curve": k.name, "builder": b,
			"values_rng_label": label, "values_mode": "random", "topology_text": t.String()}
		if j.random > 0 {
			m["topology"] = t // a few hundred dependencies at most
		}
		for a, v := range extra {
			m[a] = v
		}
		return m
	}
	r.Eval(key, true)
	r.Count(fmt.Sprintf("large.cases.instances=%d", j.n), 1)
	r.Count("large.cases.pattern="+j.pattern, 1)
	cA := newTopoCircuit(t, true)
	ccsA, err := compile(k, b, cA)
	if err != nil {
		r.Violation("large-batch/compile-fails", short(err), rep(nil))
		return
	}
	vals := genValues(r.Rand(label), k.mod, len(cA.Vals), "random")
	want := t.expectedTap(t.refEval(k.mod, vals))
	nonce := newNonce()
	w, err := frontend.NewWitness(cA.assignment(nonce, vals), k.mod)
	if err != nil {
		r.Inconclusive("witness: " + err.Error())
		return
	}
	errA, panA := solve(ccsA, w)
	if watchdogged(r, errA) {
		return
	}
	tapA := takeTap(nonce)
	firstDiff := func(got []*big.Int) map[string]any {
		for i := range want {
			if i >= len(got) || got[i].Cmp(want[i]) != 0 {
				g := "missing"
				if i < len(got) {
					g = got[i].String()
				}
				return map[string]any{"first_differing_tap_index": i, "exported_wire_position": i / j.n, "instance": i % j.n, "exported": g, "expected": want[i].String()}
			}
		}
		return nil
	}
	switch {
	case errA == nil && tapA != nil && eqVec(tapA, want):
		r.Count("large.accepted", 1)
		r.Count("large.accepted."+k.name+"."+b, 1)
		r.Count("large.exported-values-compared", len(want))
		r.Count("honest.solves-accepted", 1)
		r.Count("honest.tap-compared", 1)
		r.Count("honest.exported-values-compared", len(want))
	case errA == nil && tapA == nil:
		r.Inconclusive("tap hint did not run")
	case errA == nil:
		r.Violation("large-batch/in-circuit-assertion-holds-but-exported-values-differ-from-reference", "", rep(firstDiff(tapA)))
	default:
		// classify with the circuit that has no in-circuit assertion
		sig := "large-batch/asserting-circuit-rejects-honest-prover"
		extra := map[string]any{"asserting_circuit_error": short(errA)}
		if panA {
			sig = "large-batch/solve-panics"
		} else if ccsB, cerr := compile(k, b, newTopoCircuit(t, false)); cerr == nil {
			nonceB := newNonce()
			wB, _ := frontend.NewWitness(cA.assignment(nonceB, vals), k.mod)
			errB, _ := solve(ccsB, wB)
			tapB := takeTap(nonceB)
			switch {
			case errB != nil:
				sig = "large-batch/gkr-verification-rejects-honest-prover"
				extra["plain_circuit_error"] = short(errB)
			case tapB != nil && !eqVec(tapB, want):
				sig = "large-batch/exported-value-wrong"
				if t.permutedPerWire(tapB, want) {
					sig = "large-batch/exported-values-permuted-across-instances"
				}
				for a, v := range firstDiff(tapB) {
					extra[a] = v
				}
			}
		}
		r.Count("large.rejected", 1)
		r.Violation(sig, short(errA), rep(extra))
	}
	r.SampleClass("large/"+j.pattern, map[string]any{"topology": t.String(), "curve": k.name, "builder": b, "constraints": ccsA.GetNbConstraints(),
		"solve_error": short(errA), "exported_values": len(want), "seconds": time.Since(t0).Seconds()})

	if j.adv && errA == nil {
		largeAdv(r, t, k, b, key, vals)
	}
	r.Count("large.case-seconds-total", int(time.Since(t0).Seconds()))
}

// largeAdv: a few deviations on a large batch (the lies of the small cases, chosen to touch late instances).
func largeAdv(r *vcore.Run, t *topo, k *curveKit, b, key string, vals []*big.Int) {
	cB := newTopoCircuit(t, false)
	ccsB, err := compile(k, b, cB)
	if err != nil {
		return
	}
	priv, info, err := k.redirect(ccsB)
	if err != nil {
		r.Inconclusive("redirect failed: " + err.Error())
		return
	}
	lay, okLay := layoutOf(k, info)
	for li := range lies {
		switch lies[li].name {
		case "control", "out-one+1", "out-swap-two-instances", "out-one+1/own-proof", "proof-final-eval-claim+1", "proof-sumcheck-coeff+1", "ins-one+1":
			advCase(r, t, k, b, key+"/adv", priv, info, lay, okLay, cB, vals, &lies[li])
			r.Count("large.adv.deviations-run", 1)
		}
	}
}
