//go:build verif

package c19

import (
	"fmt"
	"testing"
	"time"

	"github.com/consensys/gnark/verifharness/internal/vcore"
)

func TestLargeTiming(t *testing.T) {
	r := vcore.Start(t, "C19")
	if err := registerAll(); err != nil {
		t.Fatal(err)
	}
	for _, j := range []largeJob{{"chain-fwd", 2048, &kits[0], "r1cs", false}, {"sparse-mixed", 4096, &kits[1], "r1cs", false}, {"tree", 4096, &kits[0], "scs", false}} {
		t0 := time.Now()
		largeCase(r, j)
		fmt.Println(j.pattern, j.n, j.k.name, j.b, time.Since(t0), "accepted", r.Counter("large.accepted"), "viol", r.NViolations())
	}
}
