//go:build verif

package c20

import (
	"fmt"
	"math/big"
	"math/rand/v2"

	"github.com/consensys/gnark/backend"
	"github.com/consensys/gnark/backend/plonk"
	"github.com/consensys/gnark/frontend"
	"github.com/consensys/gnark/frontend/cs/scs"
	"github.com/consensys/gnark/test/unsafekzg"

	"github.com/consensys/gnark/verifharness/internal/circuits"
	"github.com/consensys/gnark/verifharness/internal/cvapi"
	"github.com/consensys/gnark/verifharness/internal/vcore"
)

// shapeCircuit places one commitment at a chosen position of a sparse system: nPub public
// inputs (each bound by one constraint before the commitment), k committed secrets, m gates
// after the commitment constraint.  The BSB22 commitment polynomial of the PLONK prover holds
// its two blinding values in particular rows (the commitment's own row and the last row,
// shifted by the public-input rows); which rows these are, relative to the committed rows,
// depends on exactly these three numbers.
type shapeCircuit struct {
	Pub []frontend.Variable `gnark:",public"`
	Sec []frontend.Variable
	m   int
}

func (c *shapeCircuit) Define(api frontend.API) error {
	for i := range c.Pub {
		api.AssertIsEqual(c.Pub[i], api.Mul(c.Sec[0], i+2))
	}
	cm, err := api.(frontend.Committer).Commit(c.Sec...)
	if err != nil {
		return err
	}
	x := cm
	for j := 0; j < c.m; j++ {
		x = api.Mul(x, c.Sec[j%len(c.Sec)])
	}
	return nil
}

// shapeGrid runs the blinding checks over the grid of commitment positions (PLONK).
func shapeGrid(r *vcore.Run, ops *cvapi.Ops, rng *rand.Rand) {
	field := ops.ID.ScalarField()
	for _, nPub := range []int{0, 1, 2, 3} {
		for _, k := range []int{1, 2, 3, 4} {
			for _, m := range []int{0, 1, 2, 5} {
				sec := make([]*big.Int, k)
				for i := range sec {
					sec[i] = new(big.Int).Add(big.NewInt(2), new(big.Int).SetUint64(rng.Uint64()))
				}
				pub := make([]*big.Int, nPub)
				for i := range pub {
					pub[i] = new(big.Int).Mul(sec[0], big.NewInt(int64(i+2)))
				}
				full, err := circuits.MakeWitness(field, pub, sec)
				if err != nil {
					r.Inconclusive("shape-witness")
					continue
				}
				pw, _ := full.Public()
				ccs, err := frontend.Compile(field, scs.NewBuilder, &shapeCircuit{Pub: make([]frontend.Variable, nPub), Sec: make([]frontend.Variable, k), m: m})
				if err != nil {
					r.Count("shape-grid.compile-refused", 1)
					continue
				}
				srs, srsL, err := unsafekzg.NewSRS(ccs)
				if err != nil {
					r.Inconclusive("srs")
					continue
				}
				pk, vk, err := plonk.Setup(ccs, srs, srsL)
				if err != nil {
					r.Inconclusive("setup")
					continue
				}
				p := &prover{backend: "plonk", ops: ops, nCommit: 1, elems: ops.PlonkElems}
				p.prove = func(o ...backend.ProverOption) (any, error) { return plonk.Prove(ccs, pk, full, o...) }
				p.verify = func(pr any) error { return plonk.Verify(pr.(plonk.Proof), vk, pw) }
				r.Count("shape-grid.circuits", 1)
				runChecks(r, p, fmt.Sprintf("%s/plonk/shape{pub:%d committed:%d after:%d}", ops.Name, nPub, k, m), false)
			}
		}
	}
}
