//go:build verif

// C20 — Proofs are freshly blinded and committed values are masked.
// Monitor = randomness tap on crypto/rand.Reader + differential replay:
// draw accounting, zero-stream (unblinded) reference, per-draw influence,
// pairwise distinctness. One child process per curve (the tap is process-global,
// provers run one at a time inside a child).
package c20

import (
	"fmt"
	"math/big"
	"os"
	"sort"
	"strings"
	"testing"
	"time"

	"github.com/consensys/gnark-crypto/ecc"
	"github.com/consensys/gnark/backend"
	"github.com/consensys/gnark/backend/groth16"
	"github.com/consensys/gnark/backend/plonk"
	"github.com/consensys/gnark/backend/witness"
	"github.com/consensys/gnark/frontend"
	"github.com/consensys/gnark/frontend/cs/r1cs"
	"github.com/consensys/gnark/frontend/cs/scs"
	"github.com/consensys/gnark/test/unsafekzg"

	"github.com/consensys/gnark/verifharness/curves"
	"github.com/consensys/gnark/verifharness/internal/circuits"
	"github.com/consensys/gnark/verifharness/internal/cvapi"
	"github.com/consensys/gnark/verifharness/internal/randtap"
	"github.com/consensys/gnark/verifharness/internal/vcore"
)

func TestC20(t *testing.T) {
	if vcore.IsChild() {
		t.Skip("child mode")
	}
	r := vcore.Start(t, "C20")
	cvs := curves.Tier(r.Quick())
	vcore.Parallel(len(cvs), 7, func(i int) {
		o := cvs[i]
		res := r.RunChild("TestC20Child", o.Name, []string{"VERIF_C20_CURVE=" + o.Name}, 40*time.Minute)
		if res.OK {
			r.Count("children.completed", 1)
			return
		}
		if res.TimedOut {
			r.Inconclusive("child-watchdog:" + o.Name)
			return
		}
		r.Eval("child|"+o.Name, true)
		t.Errorf("BROKEN-CHECK property=C20: child %s died: %s", o.Name, res.Output)
	})
	r.Require("draws.recorded", 100)
	r.Require("shape-grid.circuits", 50)
	r.Require("zero-stream.deterministic", 6)
	r.Require("blinded-element-differs-from-unblinded", 50)
	r.Require("per-draw.replays", 30)
	r.Require("pairwise.distinct-elements", 50)
	r.Finish("exploration",
		"per curve and back-end, generated circuits with 0..2 commitments: (1) draw accounting — every Prove reads fresh bytes from crypto/rand.Reader, at least 2 scalars (+1 per commitment) for Groth16 and 9 (+2 per BSB22 commitment, + more under statistical ZK) for PLONK, later proofs re-read the OS source; (2) zero-stream reference — Prove under an all-zero stream is deterministic and is the unblinded proof: every blinded element of every honest proof (Ar,Bs,Krs / LRO,Z; the first commitment / BSB22 commitment) differs from it; (3) per-draw influence on circuits without commitments — the recorded stream replayed with one draw replaced still verifies, changes some element (no dead draw), every blinded element is reached, and some draw changes Z without changing LRO (and, under statistical ZK, H without changing LRO and Z); (4) several proofs of one witness have pairwise distinct blinded elements. distinct = (curve, back-end, circuit, step, draw)",
		[]string{"the tap replaces crypto/rand.Reader in the harness process; all prover randomness is read through it (verified: a zero stream makes proofs deterministic)", "quotient-shard randomisers are observable only through step 3"})
}

type prover struct {
	backend string
	ops     *cvapi.Ops
	prove   func(opts ...backend.ProverOption) (any, error)
	verify  func(p any) error
	elems   func(p any) []cvapi.Elem
	nCommit int
}

func elemMap(es []cvapi.Elem) map[string]string {
	m := map[string]string{}
	for _, e := range es {
		m[e.Name] = e.Hex
	}
	return m
}

func blindedNames(backend string, nCommit int, statZK bool) []string {
	if backend == "groth16" {
		n := []string{"Ar", "Bs", "Krs"}
		for i := 0; i < nCommit; i++ {
			n = append(n, fmt.Sprintf("Commitments[%d]", i))
		}
		return n
	}
	n := []string{"LRO[0]", "LRO[1]", "LRO[2]", "Z"}
	for i := 0; i < nCommit; i++ {
		n = append(n, fmt.Sprintf("Bsb22Commitments[%d]", i))
	}
	if statZK {
		n = append(n, "H[0]", "H[1]", "H[2]")
	}
	return n
}

func TestC20Child(t *testing.T) {
	if !vcore.IsChild() {
		t.Skip("parent mode")
	}
	r := vcore.Start(t, "C20")
	var ops *cvapi.Ops
	for _, o := range curves.All {
		if o.Name == os.Getenv("VERIF_C20_CURVE") {
			ops = o
		}
	}
	field := ops.ID.ScalarField()
	rng := r.Rand(ops.Name)
	nCirc := r.Pick(4, 24)
	for ci := 0; ci < nCirc; ci++ {
		spec := circuits.RandSpec(rng, 0)
		switch ci % 4 {
		case 1:
			if spec.NSec == 0 {
				spec.NSec = 1
			}
			spec.Commits = []circuits.CommitSpec{{Sec: []int{0}}}
		case 3:
			if spec.NSec == 0 {
				spec.NSec = 1
			}
			spec.Commits = []circuits.CommitSpec{{Pub: []int{0}, Sec: []int{0}}, {Sec: []int{0}, Prev: []int{0}}}
		}
		pub, sec := spec.Assign(rng, field)
		full, _ := circuits.MakeWitness(field, pub, sec)
		pw, _ := full.Public()
		for _, be := range []string{"groth16", "plonk"} {
			p := build(r, ops, be, spec, full, pw)
			if p == nil {
				continue
			}
			label := fmt.Sprintf("%s/%s/%s", ops.Name, be, spec)
			runChecks(r, p, label, false)
			if be == "plonk" && ci%2 == 0 {
				runChecks(r, p, label+"/statzk", true)
			}
		}
	}
	shapeGrid(r, ops, rng)
	r.ExportPartial()
}

func build(r *vcore.Run, ops *cvapi.Ops, be string, spec *circuits.Spec, full, pw witness.Witness) *prover {
	field := ops.ID.ScalarField()
	p := &prover{backend: be, ops: ops, nCommit: len(spec.Commits)}
	if be == "groth16" {
		ccs, err := frontend.Compile(field, r1cs.NewBuilder, spec.New())
		if err != nil {
			r.Inconclusive("compile")
			return nil
		}
		pk, vk, err := groth16.Setup(ccs)
		if err != nil {
			r.Inconclusive("setup")
			return nil
		}
		p.prove = func(o ...backend.ProverOption) (any, error) { return groth16.Prove(ccs, pk, full, o...) }
		p.verify = func(pr any) error { return groth16.Verify(pr.(groth16.Proof), vk, pw) }
		p.elems = ops.G16Elems
		return p
	}
	ccs, err := frontend.Compile(field, scs.NewBuilder, spec.New())
	if err != nil {
		r.Inconclusive("compile")
		return nil
	}
	srs, srsL, err := unsafekzg.NewSRS(ccs)
	if err != nil {
		r.Inconclusive("srs")
		return nil
	}
	pk, vk, err := plonk.Setup(ccs, srs, srsL)
	if err != nil {
		r.Inconclusive("setup")
		return nil
	}
	p.prove = func(o ...backend.ProverOption) (any, error) { return plonk.Prove(ccs, pk, full, o...) }
	p.verify = func(pr any) error { return plonk.Verify(pr.(plonk.Proof), vk, pw) }
	p.elems = ops.PlonkElems
	return p
}

func runChecks(r *vcore.Run, p *prover, label string, statZK bool) {
	var popts []backend.ProverOption
	if statZK {
		popts = append(popts, backend.WithStatisticalZeroKnowledge())
	}
	rep := func(extra map[string]any) map[string]any {
		m := map[string]any{"case": label, "backend": p.backend, "commitments": p.nCommit, "statistical_zk": statZK}
		for k, v := range extra {
			m[k] = v
		}
		return m
	}
	sigBase := p.backend
	if statZK {
		sigBase += "+statzk"
	}
	// ---- (1) recorded honest proofs
	type rec struct {
		proof any
		reads []randtap.Read
		el    map[string]string
	}
	var honest []rec
	nHonest := r.Pick(4, 8)
	for k := 0; k < nHonest; k++ {
		tap := randtap.Install(randtap.Record)
		pr, err := p.prove(popts...)
		tap.Restore()
		if err != nil {
			r.Inconclusive("prove:" + err.Error())
			return
		}
		if err := p.verify(pr); err != nil {
			r.Inconclusive("honest-proof-rejected")
			return
		}
		honest = append(honest, rec{pr, tap.Reads(), elemMap(p.elems(pr))})
		r.Count("draws.recorded", len(tap.Reads()))
	}
	// draw accounting
	minDraws := 2 + p.nCommit
	if p.backend == "plonk" {
		minDraws = 9 + 2*p.nCommit
		if statZK {
			minDraws += 2
		}
	}
	r.Eval(label+"|draw-accounting", true)
	sites := map[string]int{}
	for _, rd := range honest[0].reads {
		sites[rd.Site]++
	}
	r.SampleClass("draw-sites/"+sigBase+fmt.Sprintf("/commitments=%d", p.nCommit), rep(map[string]any{"reads": len(honest[0].reads), "sites": sites}))
	acc := randtap.ScalarAccept(p.ops.ID.ScalarField())
	for k, h := range honest {
		kept := 0
		for _, rd := range h.reads {
			if strings.Contains(rd.Site, "hints.Randomize") {
				// crypto/rand.Int: big-endian candidate, unused top bits cleared, kept iff below the modulus
				mod := p.ops.ID.ScalarField()
				be := append([]byte{}, rd.Bytes...)
				if b := uint(mod.BitLen() % 8); b != 0 && len(be) > 0 {
					be[0] &= uint8(int(1<<b) - 1)
				}
				if new(big.Int).SetBytes(be).Cmp(mod) < 0 {
					kept++
				}
			} else if acc(rd.Bytes) {
				kept++
			}
		}
		if kept < minDraws {
			r.Violation("too-few-random-draws/"+sigBase, fmt.Sprintf("Prove #%d drew %d random scalars, at least %d blinding scalars are needed", k, kept, minDraws), rep(map[string]any{"sites": sites}))
		}
		for _, rd := range h.reads {
			allZero := true
			for _, b := range rd.Bytes {
				if b != 0 {
					allZero = false
				}
			}
			if allZero && len(rd.Bytes) >= 16 {
				r.Violation("zero-randomness/"+sigBase, "a read of prover randomness returned only zero bytes", rep(nil))
			}
		}
	}
	// later proofs must use fresh bytes: no read of proof k repeats a read of proof 0
	seen := map[string]bool{}
	for _, rd := range honest[0].reads {
		if len(rd.Bytes) >= 16 {
			seen[string(rd.Bytes)] = true
		}
	}
	for k := 1; k < len(honest); k++ {
		for _, rd := range honest[k].reads {
			if seen[string(rd.Bytes)] {
				r.Violation("randomness-reused-across-proofs/"+sigBase, fmt.Sprintf("proof #%d consumed the same random bytes as proof #0", k), rep(map[string]any{"site": rd.Site}))
			}
		}
	}
	r.Count("draw-accounting.proofs", len(honest))

	// ---- (2) zero-stream reference
	var zero [2]map[string]string
	zeroOK := true
	for k := 0; k < 2; k++ {
		tap := randtap.Install(randtap.Zero)
		pr, err := p.prove(popts...)
		tap.Restore()
		if tap.Exhausted {
			// the prover refuses zero randomness (re-samples): there is no unblinded reference run
			r.Count("zero-stream.refused-by-prover(re-sampling)", 1)
			zeroOK = false
			break
		}
		if err != nil {
			r.Inconclusive("zero-stream-prove:" + err.Error())
			return
		}
		if err := p.verify(pr); err != nil {
			r.Inconclusive("zero-stream-proof-rejected")
			return
		}
		zero[k] = elemMap(p.elems(pr))
	}
	det := zeroOK
	if zeroOK {
		for n, v := range zero[0] {
			if zero[1][n] != v {
				det = false
			}
		}
		if !det {
			r.Inconclusive("zero-stream-not-deterministic")
			return
		}
		r.Count("zero-stream.deterministic", 1)
	}
	// which elements can be compared with the zero-stream proof: without commitments all
	// blinded ones; with commitments the wire values depend on the (masked) commitment, so
	// only the first commitment itself (it commits witness values only)
	var cmp []string
	if p.nCommit == 0 {
		cmp = blindedNames(p.backend, 0, false)
	} else if p.backend == "groth16" {
		cmp = []string{"Commitments[0]"}
	} else {
		cmp = []string{"Bsb22Commitments[0]"}
	}
	if !zeroOK {
		cmp = nil
	}
	for k, h := range honest {
		for _, n := range cmp {
			r.Eval(fmt.Sprintf("%s|vs-unblinded|%d|%s", label, k, n), true)
			if h.el[n] == zero[0][n] {
				r.Violation("element-equals-unblinded/"+sigBase+"/"+stripIdx(n), fmt.Sprintf("%s of an honest proof equals the deterministic (zero-randomness) value computable from the witness", n), rep(map[string]any{"element": n, "hex": h.el[n]}))
			} else {
				r.Count("blinded-element-differs-from-unblinded", 1)
			}
		}
	}

	// ---- (4) pairwise distinct
	names := blindedNames(p.backend, p.nCommit, statZK)
	if p.backend == "plonk" && !statZK {
		names = append(names, "H[0]") // the quotient depends on the blinded polynomials
	}
	for _, n := range names {
		vals := map[string]int{}
		for k, h := range honest {
			if prev, dup := vals[h.el[n]]; dup {
				r.Violation("element-repeated-across-proofs/"+sigBase+"/"+stripIdx(n), fmt.Sprintf("%s is identical in proofs #%d and #%d of the same witness", n, prev, k), rep(map[string]any{"element": n}))
			}
			vals[h.el[n]] = k
		}
		r.Eval(label+"|pairwise|"+n, true)
		r.Count("pairwise.distinct-elements", 1)
	}

	// ---- (3) per-draw influence (circuits without commitments: the read order is deterministic)
	if p.nCommit != 0 {
		return
	}
	base := honest[0]
	// sanity: a full replay reproduces the proof
	{
		tap := randtap.InstallReplay(base.reads, nil, nil)
		pr, err := p.prove(popts...)
		tap.Restore()
		if err != nil || tap.Mismatch {
			r.Inconclusive("replay-not-reproducible(read-order)")
			return
		}
		same := true
		for n, v := range elemMap(p.elems(pr)) {
			if base.el[n] != v {
				same = false
			}
		}
		if !same {
			r.Inconclusive("replay-not-reproducible(proof-differs)")
			return
		}
		r.Count("per-draw.full-replay-reproduces-proof", 1)
	}
	reached := map[string]bool{}
	zOnly, hOnly := false, false
	accept := randtap.ScalarAccept(p.ops.ID.ScalarField())
	for j := range base.reads {
		if !accept(base.reads[j].Bytes) {
			// a candidate the sampler rejected (SetRandom re-samples until the value is below the modulus): not a draw
			r.Count("per-draw.rejected-samples-skipped", 1)
			continue
		}
		tap := randtap.InstallReplay(base.reads, map[int]bool{j: true}, accept)
		pr, err := p.prove(popts...)
		tap.Restore()
		r.Eval(fmt.Sprintf("%s|replay-draw|%d", label, j), true)
		r.Count("per-draw.replays", 1)
		if err != nil {
			r.Violation("prove-fails-with-other-randomness/"+sigBase, err.Error(), rep(map[string]any{"draw": j}))
			continue
		}
		if tap.Mismatch {
			r.Inconclusive("replay-read-order-changed")
			continue
		}
		if err := p.verify(pr); err != nil {
			r.Violation("proof-with-other-randomness-rejected/"+sigBase, fmt.Sprintf("replacing draw %d (%s) gives a proof that does not verify: %v", j, base.reads[j].Site, err), rep(map[string]any{"draw": j}))
			continue
		}
		el := elemMap(p.elems(pr))
		var changed []string
		for n, v := range el {
			if base.el[n] != v {
				changed = append(changed, n)
				reached[n] = true
			}
		}
		sort.Strings(changed)
		if os.Getenv("VERIF_C20_DEBUG") != "" {
			fmt.Printf("DEBUG %s draw %d/%d site=%s len=%d changes=%v\n", label, j, len(base.reads), base.reads[j].Site, len(base.reads[j].Bytes), changed)
		}
		if len(changed) == 0 {
			r.Count("per-draw.DEAD-DRAW", 1)
			r.Violation("dead-random-draw/"+sigBase, fmt.Sprintf("draw %d (%s, %d bytes) is sampled but changes no proof element", j, base.reads[j].Site, len(base.reads[j].Bytes)), rep(map[string]any{"draw": j, "site": base.reads[j].Site}))
			continue
		}
		lro := false
		for _, n := range changed {
			if strings.HasPrefix(n, "LRO") {
				lro = true
			}
		}
		zch := contains(changed, "Z")
		if !lro && zch {
			zOnly = true
		}
		if !lro && !zch && (contains(changed, "H[0]") || contains(changed, "H[1]") || contains(changed, "H[2]")) {
			hOnly = true
		}
		r.SampleClass("per-draw/"+sigBase+"/"+base.reads[j].Site, rep(map[string]any{"draw": j, "site": base.reads[j].Site, "changes": changed}))
	}
	for _, n := range blindedNames(p.backend, 0, false) {
		if !reached[n] {
			r.Violation("element-not-influenced-by-any-draw/"+sigBase+"/"+n, n+" is not changed by replacing any single random draw: it carries no prover randomness", rep(nil))
		}
	}
	if p.backend == "plonk" {
		if !zOnly {
			r.Violation("no-draw-blinds-Z-alone/"+sigBase, "no random draw changes Z while leaving L,R,O unchanged: the permutation polynomial has no blinding of its own", rep(nil))
		} else {
			r.Count("per-draw.Z-has-own-blinding", 1)
		}
		if statZK {
			if !hOnly {
				r.Violation("no-draw-blinds-H-alone/"+sigBase, "under statistical zero-knowledge no draw changes H while leaving L,R,O,Z unchanged", rep(nil))
			} else {
				r.Count("per-draw.H-has-own-blinding(statzk)", 1)
			}
		}
	}
}

func contains(s []string, x string) bool {
	for _, v := range s {
		if v == x {
			return true
		}
	}
	return false
}

func stripIdx(n string) string {
	if i := strings.IndexByte(n, '['); i >= 0 {
		return n[:i]
	}
	return n
}

var _ = ecc.BN254
