//go:build verif

package c07

// Shape trees: the harness's own description of a circuit structure (type tree
// tnode + instance tree inode), the construction of the corresponding Go types
// and values with reflect, and the harness's own implementation of the
// documented leaf-ordering / visibility rule (oracle walk).  The oracle never
// looks at Go reflection data: it reads the shape tree only.

import (
	"fmt"
	"math/big"
	"math/rand/v2"
	"reflect"
	"strconv"
	"strings"

	"github.com/consensys/gnark/frontend"
)

type vis int

const (
	vUnset vis = iota
	vSecret
	vPublic
)

func (v vis) String() string { return [...]string{"unset", "secret", "public"}[v] }

type kind int

const (
	kLeaf kind = iota
	kStruct
	kArray
	kSlice
	kPtr
	kIface // field of type any holding a pointer to a struct (or nil)
	kJunk  // any type that holds no frontend.Variable
)

var tVar = reflect.TypeOf((*frontend.Variable)(nil)).Elem()
var tAny = reflect.TypeOf((*any)(nil)).Elem()

type tfield struct {
	name       string // Go field name
	hasGnark   bool   // a gnark:"..." key is present
	tagName    string // name part of the gnark tag
	opt        string // "", "public", "secret", "inherit", "-"
	extraKey   int    // 0 none, 1 another key before, 2 another key after
	embedded   bool
	unexported bool
	t          *tnode
}

// rawTag renders the struct tag from the descriptor.
func (f *tfield) rawTag() string {
	if !f.hasGnark {
		if f.extraKey != 0 {
			return `json:"jj,omitempty"`
		}
		return ""
	}
	val := f.tagName
	if f.opt == "-" {
		val = "-"
	} else if f.opt != "" {
		val += "," + f.opt
	}
	g := `gnark:"` + val + `"`
	switch f.extraKey {
	case 1:
		return `json:"jj" ` + g
	case 2:
		return g + ` yaml:"yy"`
	}
	return g
}

// effName is the name the documentation assigns to the witness element: the
// first element of the tag if present, the Go field name otherwise.
func (f *tfield) effName() string {
	if f.hasGnark && f.opt != "-" && f.tagName != "" {
		return f.tagName
	}
	return f.name
}

type tnode struct {
	k       kind
	fields  []tfield
	elem    *tnode
	n       int // array length
	hookLen int // slice that a GnarkInitHook of the enclosing type allocates when nil (compile time)
	rt      reflect.Type
	junkVal func() reflect.Value
}

type inode struct {
	t     *tnode
	kids  []*inode
	isNil bool // nil slice / nil pointer / nil interface
	id    int  // leaf id (declaration order over all leaves, omitted ones included)
	path  []int
}

// ---------------------------------------------------------------- generation

type gen struct {
	rng      *rand.Rand
	ctr      int
	maxDepth int
	feat     map[string]int
}

var nameLetters = []string{"Zed", "Alpha", "Mu", "Beta", "Yot", "Gam", "Kap", "Del", "Omi", "Eps", "Xi", "Nu", "Tau", "Rho", "Phi", "Chi", "Psi", "Eta", "Lam", "Sig"}

func (g *gen) name() string {
	g.ctr++
	return nameLetters[g.rng.IntN(len(nameLetters))] + strconv.Itoa(g.ctr)
}

var junkTypes = []struct {
	rt  reflect.Type
	val func() reflect.Value
}{
	{reflect.TypeOf(0), func() reflect.Value { return reflect.ValueOf(7) }},
	{reflect.TypeOf(""), func() reflect.Value { return reflect.ValueOf("str") }},
	{reflect.TypeOf(false), func() reflect.Value { return reflect.ValueOf(true) }},
	{reflect.TypeOf(uint8(0)), nil},
	{reflect.TypeOf(1.5), func() reflect.Value { return reflect.ValueOf(2.5) }},
	{reflect.TypeOf(map[string]int{}), func() reflect.Value { return reflect.ValueOf(map[string]int{"a": 1}) }},
	{reflect.TypeOf(map[string]frontend.Variable{}), func() reflect.Value { return reflect.ValueOf(map[string]frontend.Variable{"a": 1}) }},
	{reflect.TypeOf((func())(nil)), nil},
	{reflect.TypeOf((chan int)(nil)), nil},
	{reflect.TypeOf((*big.Int)(nil)), func() reflect.Value { return reflect.ValueOf(big.NewInt(99)) }},
	{reflect.TypeOf(big.Int{}), nil},
	{reflect.TypeOf([2]int{}), nil},
	{reflect.TypeOf([]byte{}), func() reflect.Value { return reflect.ValueOf([]byte{1, 2, 3}) }},
	{reflect.TypeOf(struct{ L int }{}), nil},
	{reflect.TypeOf([]string{}), func() reflect.Value { return reflect.ValueOf([]string{"x", "y"}) }},
	{tAny, func() reflect.Value { return reflect.ValueOf(42) }}, // any holding a plain int
	{reflect.TypeOf((*int)(nil)), nil},
	{reflect.TypeOf(complex(1, 2)), nil},
}

func (g *gen) junk() *tnode {
	j := junkTypes[g.rng.IntN(len(junkTypes))]
	return &tnode{k: kJunk, rt: j.rt, junkVal: j.val}
}

func leafT() *tnode { return &tnode{k: kLeaf, rt: tVar} }

// typ draws a type tree. pv is the visibility inherited at this point (used
// only to keep conflicting tags rare enough that most shapes are valid).
func (g *gen) typ(depth int, pv vis) *tnode {
	x := g.rng.IntN(100)
	if depth >= g.maxDepth {
		switch {
		case x < 60:
			return leafT()
		case x < 72:
			return &tnode{k: kSlice, elem: leafT()}
		case x < 85:
			return &tnode{k: kArray, n: 1 + g.rng.IntN(3), elem: leafT()}
		default:
			return g.junk()
		}
	}
	switch {
	case x < 26:
		return leafT()
	case x < 56:
		return g.structT(depth, pv)
	case x < 68:
		n := 1 + g.rng.IntN(3)
		if g.rng.IntN(25) == 0 {
			n = 0
		}
		return &tnode{k: kArray, n: n, elem: g.typ(depth+1, pv)}
	case x < 81:
		return &tnode{k: kSlice, elem: g.typ(depth+1, pv)}
	case x < 89:
		return &tnode{k: kPtr, elem: g.typ(depth+1, pv)}
	case x < 92:
		return &tnode{k: kIface, elem: g.structT(depth+1, pv)}
	default:
		return g.junk()
	}
}

func (g *gen) structT(depth int, pv vis) *tnode {
	nf := 1 + g.rng.IntN(5)
	if g.rng.IntN(30) == 0 {
		nf = 0
	}
	t := &tnode{k: kStruct}
	for i := 0; i < nf; i++ {
		f := tfield{name: g.name()}
		y := g.rng.IntN(100)
		switch {
		case y < 7 && depth < g.maxDepth: // embedded struct or pointer to struct, never tagged (tags on embedded fields are undocumented)
			f.embedded = true
			f.name = "Emb" + strconv.Itoa(g.ctr)
			s := g.structT(depth+1, pv)
			if g.rng.IntN(3) == 0 {
				f.t = &tnode{k: kPtr, elem: s}
			} else {
				f.t = s
			}
			t.fields = append(t.fields, f)
			continue
		case y < 11: // unexported field without variables
			f.unexported = true
			f.name = "u" + f.name
			f.t = g.junk()
			t.fields = append(t.fields, f)
			continue
		}
		// tag
		cv := pv
		z := g.rng.IntN(100)
		switch {
		case z < 22: // no tag at all
		case z < 26:
			f.extraKey = 1 // only a foreign key
		case z < 34: // name only
			f.hasGnark, f.tagName = true, "t"+strings.ToLower(g.name())
		case z < 42: // inherit, with or without a name
			f.hasGnark, f.opt = true, "inherit"
			if g.rng.IntN(2) == 0 {
				f.tagName = "t" + strings.ToLower(g.name())
			}
		case z < 45: // empty gnark tag
			f.hasGnark = true
		case z < 53:
			f.hasGnark, f.opt = true, "-"
		default: // explicit visibility
			f.hasGnark = true
			want := pv
			if pv == vUnset || g.rng.IntN(100) < 5 {
				want = vSecret + vis(g.rng.IntN(2))
			}
			f.opt = want.String()
			cv = want
			if g.rng.IntN(2) == 0 {
				f.tagName = "t" + strings.ToLower(g.name())
			}
			if g.rng.IntN(8) == 0 {
				f.extraKey = 1 + g.rng.IntN(2)
			}
		}
		f.t = g.typ(depth+1, cv)
		t.fields = append(t.fields, f)
	}
	return t
}

// finalize computes the Go types bottom-up (no-op where rt is already given,
// which is the case for the hand-described static catalogue).
func finalize(t *tnode) {
	if t == nil {
		return
	}
	switch t.k {
	case kStruct:
		for i := range t.fields {
			finalize(t.fields[i].t)
		}
		if t.rt != nil {
			return
		}
		sf := make([]reflect.StructField, len(t.fields))
		for i, f := range t.fields {
			sf[i] = reflect.StructField{Name: f.name, Type: f.t.rt, Tag: reflect.StructTag(f.rawTag()), Anonymous: f.embedded}
			if f.unexported {
				sf[i].PkgPath = "github.com/consensys/gnark/verifharness/c07"
			}
		}
		t.rt = reflect.StructOf(sf)
	case kArray:
		finalize(t.elem)
		if t.rt == nil {
			t.rt = reflect.ArrayOf(t.n, t.elem.rt)
		}
	case kSlice:
		finalize(t.elem)
		if t.rt == nil {
			t.rt = reflect.SliceOf(t.elem.rt)
		}
	case kPtr:
		finalize(t.elem)
		if t.rt == nil {
			t.rt = reflect.PointerTo(t.elem.rt)
		}
	case kIface:
		finalize(t.elem)
		t.rt = tAny
	}
}

// checkDesc cross-checks a hand-written descriptor against the Go type it
// claims to describe (harness self-check only; not part of the oracle).
func checkDesc(t *tnode, rt reflect.Type, where string) error {
	switch t.k {
	case kLeaf:
		if rt != tVar {
			return fmt.Errorf("%s: descriptor says leaf, type is %s", where, rt)
		}
	case kStruct:
		if rt.Kind() != reflect.Struct || rt.NumField() != len(t.fields) {
			return fmt.Errorf("%s: descriptor says struct with %d fields, type is %s", where, len(t.fields), rt)
		}
		for i := range t.fields {
			f, sf := &t.fields[i], rt.Field(i)
			if f.name != sf.Name || f.embedded != sf.Anonymous || f.unexported == sf.IsExported() {
				return fmt.Errorf("%s.%s: name/embedded/exported mismatch with %s", where, f.name, sf.Name)
			}
			gv, ok := sf.Tag.Lookup("gnark")
			if ok != f.hasGnark {
				return fmt.Errorf("%s.%s: gnark tag presence mismatch", where, f.name)
			}
			if ok && `gnark:"`+gv+`"` != f.rawTag() {
				return fmt.Errorf("%s.%s: gnark tag %q vs descriptor %q", where, f.name, gv, f.rawTag())
			}
			if err := checkDesc(f.t, sf.Type, where+"."+f.name); err != nil {
				return err
			}
		}
	case kArray:
		if rt.Kind() != reflect.Array || rt.Len() != t.n {
			return fmt.Errorf("%s: array mismatch %s", where, rt)
		}
		return checkDesc(t.elem, rt.Elem(), where+"[]")
	case kSlice:
		if rt.Kind() != reflect.Slice {
			return fmt.Errorf("%s: slice mismatch %s", where, rt)
		}
		return checkDesc(t.elem, rt.Elem(), where+"[]")
	case kPtr:
		if rt.Kind() != reflect.Ptr {
			return fmt.Errorf("%s: pointer mismatch %s", where, rt)
		}
		return checkDesc(t.elem, rt.Elem(), where+"*")
	case kIface:
		if rt != tAny {
			return fmt.Errorf("%s: any mismatch %s", where, rt)
		}
	case kJunk:
		if t.rt != rt {
			return fmt.Errorf("%s: junk type %s vs %s", where, t.rt, rt)
		}
	}
	return nil
}

// ---------------------------------------------------------------- instances

type instGen struct {
	rng    *rand.Rand
	leaves []*inode
}

func (g *instGen) inst(t *tnode, path []int) *inode {
	in := &inode{t: t, path: append([]int(nil), path...)}
	sub := func(i int) []int { return append(append([]int(nil), path...), i) }
	switch t.k {
	case kLeaf:
		in.id = len(g.leaves)
		g.leaves = append(g.leaves, in)
	case kStruct:
		for i := range t.fields {
			in.kids = append(in.kids, g.inst(t.fields[i].t, sub(i)))
		}
	case kArray:
		for i := 0; i < t.n; i++ {
			in.kids = append(in.kids, g.inst(t.elem, sub(i)))
		}
	case kSlice:
		n := 0
		if t.hookLen > 0 {
			n = t.hookLen
		} else {
			switch x := g.rng.IntN(100); {
			case x < 12:
				in.isNil = true
			case x < 20:
			case x < 55:
				n = 1
			case x < 82:
				n = 2
			default:
				n = 3
			}
		}
		for i := 0; i < n; i++ {
			in.kids = append(in.kids, g.inst(t.elem, sub(i)))
		}
	case kPtr, kIface:
		if pn := 15; g.rng.IntN(100) < map[bool]int{true: 2, false: pn}[len(path) <= 1] {
			in.isNil = true
		} else {
			in.kids = []*inode{g.inst(t.elem, sub(0))}
		}
	}
	return in
}

// ---------------------------------------------------------------- oracle walk

type leafRec struct {
	id   int
	v    vis
	name string
}

type oracleOut struct {
	pub, sec          []leafRec
	mustErr           bool // a parent/child visibility conflict on a field that holds >= 1 leaf
	mayErr            bool // a conflict on a field without leaves (either outcome tolerated)
	omitted           []int
	nbOmittedSubtrees int
}

func countLeaves(in *inode) int {
	if in.t.k == kLeaf {
		return 1
	}
	n := 0
	for _, k := range in.kids {
		n += countLeaves(k)
	}
	return n
}

func collectLeaves(in *inode, out *[]int) {
	if in.t.k == kLeaf {
		*out = append(*out, in.id)
	}
	for _, k := range in.kids {
		collectLeaves(k, out)
	}
}

// walk is the harness's implementation of the documented rule: leaves
// depth-first in declaration order; a field tagged "-" is not part of the
// witness; visibility is "public"/"secret" when the tag says so, otherwise the
// parent's, otherwise (top level) secret; a child that states a visibility
// different from the one its parent carries is an error; the name is the tag
// name if given, the field name otherwise, joined along the path with "_",
// array / slice elements being named by their index.
func (o *oracleOut) walk(in *inode, v vis, path []string) {
	switch in.t.k {
	case kLeaf:
		r := leafRec{id: in.id, v: v, name: strings.Join(path, "_")}
		if r.v == vUnset {
			r.v = vSecret
		}
		if r.v == vPublic {
			o.pub = append(o.pub, r)
		} else {
			o.sec = append(o.sec, r)
		}
	case kStruct:
		for i := range in.t.fields {
			f := &in.t.fields[i]
			kid := in.kids[i]
			if f.embedded {
				// fields of an embedded struct are fields of the enclosing struct
				o.walk(kid, v, path)
				continue
			}
			if f.hasGnark && f.opt == "-" {
				collectLeaves(kid, &o.omitted)
				o.nbOmittedSubtrees++
				continue
			}
			cv := v
			switch f.opt {
			case "public":
				cv = vPublic
			case "secret":
				cv = vSecret
			}
			if v != vUnset && cv != v {
				if countLeavesInWitness(kid) > 0 {
					o.mustErr = true
				} else {
					o.mayErr = true
				}
			}
			o.walk(kid, cv, append(append([]string(nil), path...), f.effName()))
		}
	case kArray, kSlice:
		for i, kid := range in.kids {
			o.walk(kid, v, append(append([]string(nil), path...), strconv.Itoa(i)))
		}
	case kPtr, kIface:
		if !in.isNil {
			o.walk(in.kids[0], v, path)
		}
	}
}

// countLeavesInWitness counts leaves not below an omitted field.
func countLeavesInWitness(in *inode) int {
	switch in.t.k {
	case kLeaf:
		return 1
	case kStruct:
		n := 0
		for i := range in.t.fields {
			f := &in.t.fields[i]
			if !f.embedded && f.hasGnark && f.opt == "-" {
				continue
			}
			n += countLeavesInWitness(in.kids[i])
		}
		return n
	}
	n := 0
	for _, k := range in.kids {
		n += countLeavesInWitness(k)
	}
	return n
}

// ---------------------------------------------------------------- building Go values

type builder struct {
	assign   bool
	vals     []any // by leaf id; nil = leave the field nil
	sentinel any   // compile mode: value stored in omitted leaves
	omitted  map[int]bool
}

func (b *builder) build(in *inode, v reflect.Value) {
	switch in.t.k {
	case kLeaf:
		if !v.CanSet() {
			return
		}
		if b.assign {
			if x := b.vals[in.id]; x != nil {
				v.Set(reflect.ValueOf(x))
			}
		} else if b.omitted[in.id] && b.sentinel != nil {
			v.Set(reflect.ValueOf(b.sentinel))
		}
	case kStruct:
		for i := range in.t.fields {
			if in.t.fields[i].unexported {
				continue
			}
			b.build(in.kids[i], v.Field(i))
		}
	case kArray:
		for i, k := range in.kids {
			b.build(k, v.Index(i))
		}
	case kSlice:
		if in.isNil {
			return
		}
		if in.t.hookLen > 0 && !b.assign {
			return // the type's GnarkInitHook allocates it
		}
		s := reflect.MakeSlice(v.Type(), len(in.kids), len(in.kids))
		v.Set(s)
		for i, k := range in.kids {
			b.build(k, v.Index(i))
		}
	case kPtr:
		if in.isNil {
			return
		}
		p := reflect.New(in.t.elem.rt)
		b.build(in.kids[0], p.Elem())
		v.Set(p)
	case kIface:
		if in.isNil {
			return
		}
		p := reflect.New(in.t.elem.rt)
		b.build(in.kids[0], p.Elem())
		v.Set(p)
	case kJunk:
		if in.t.junkVal != nil && v.CanSet() {
			v.Set(in.t.junkVal())
		}
	}
}

// resolve navigates from the root value to the field of a leaf along the
// shape-tree path (indices chosen by the harness, not by gnark's walker).
func resolve(root *inode, rootVal reflect.Value, path []int) reflect.Value {
	in, v := root, rootVal
	for _, i := range path {
		switch in.t.k {
		case kStruct:
			v = v.Field(i)
		case kArray, kSlice:
			v = v.Index(i)
		case kPtr:
			v = v.Elem()
		case kIface:
			v = v.Elem().Elem()
		}
		in = in.kids[i]
	}
	return v
}

// ---------------------------------------------------------------- description / features

func describe(in *inode) string {
	var sb strings.Builder
	var rec func(in *inode)
	rec = func(in *inode) {
		switch in.t.k {
		case kLeaf:
			fmt.Fprintf(&sb, "L%d", in.id)
		case kJunk:
			sb.WriteString("junk")
		case kStruct:
			sb.WriteString("{")
			for i := range in.t.fields {
				if i > 0 {
					sb.WriteString(" ")
				}
				f := &in.t.fields[i]
				if f.embedded {
					sb.WriteString("(embedded)")
				}
				sb.WriteString(f.name)
				if t := f.rawTag(); t != "" {
					sb.WriteString("`" + t + "`")
				}
				sb.WriteString(":")
				rec(in.kids[i])
			}
			sb.WriteString("}")
		case kArray, kSlice:
			if in.isNil {
				sb.WriteString("nil[]")
				return
			}
			if in.t.k == kArray {
				fmt.Fprintf(&sb, "[%d]", in.t.n)
			} else {
				sb.WriteString("[]")
			}
			sb.WriteString("[")
			for i, k := range in.kids {
				if i > 0 {
					sb.WriteString(" ")
				}
				rec(k)
			}
			sb.WriteString("]")
		case kPtr, kIface:
			if in.isNil {
				sb.WriteString("nil*")
				return
			}
			if in.t.k == kIface {
				sb.WriteString("any")
			}
			sb.WriteString("&")
			rec(in.kids[0])
		}
	}
	rec(in)
	return sb.String()
}

// sig is a structural signature of an instance (used to detect heterogeneous
// elements of one array / slice).
func sig(in *inode) string {
	switch in.t.k {
	case kLeaf:
		return "L"
	case kJunk:
		return "J"
	}
	var sb strings.Builder
	fmt.Fprintf(&sb, "%d%v(", in.t.k, in.isNil)
	for i, k := range in.kids {
		if in.t.k == kStruct {
			f := &in.t.fields[i]
			if !f.embedded && f.hasGnark && f.opt == "-" {
				continue
			}
		}
		sb.WriteString(sig(k))
		sb.WriteString(",")
	}
	sb.WriteString(")")
	return sb.String()
}

type features struct {
	embedded, ptr, iface, hetero, nilSlice, emptySlice, omit, inherit, nameTag, unexported, zeroArray bool
	topInherit, nilPtr, embeddedAny, topNameOnlyPublic                                                bool
	depth                                                                                             int
}

// scan collects the features of the part of the instance that is in the witness.
func (ft *features) scan(in *inode, depth int, top bool) {
	if depth > ft.depth {
		ft.depth = depth
	}
	switch in.t.k {
	case kStruct:
		for i := range in.t.fields {
			f := &in.t.fields[i]
			if !f.embedded && f.hasGnark && f.opt == "-" {
				ft.omit = true
				continue
			}
			if f.opt == "inherit" && top {
				ft.topInherit = true
			}
			if (f.embedded && !f.unexported) || anyField(in.kids[i], func(f *tfield) bool { return f.embedded }) {
				ft.embeddedAny = true
			}
			if top && f.hasGnark && f.opt == "" && f.tagName != "" {
				if anyField(in.kids[i], func(f *tfield) bool { return f.opt == "public" }) {
					ft.topNameOnlyPublic = true
				}
			}
			if k := in.kids[i]; k.t.k == kSlice && k.isNil {
				ft.nilSlice = true
			} else if k.t.k == kSlice && len(k.kids) == 0 {
				ft.emptySlice = true
			} else if (k.t.k == kPtr || k.t.k == kIface) && k.isNil {
				ft.nilPtr = true
			}
			if countLeavesInWitness(in.kids[i]) == 0 {
				continue
			}
			if f.embedded {
				ft.embedded = true
			}
			if f.unexported {
				ft.unexported = true
			}
			if f.opt == "inherit" {
				ft.inherit = true
			}
			if f.hasGnark && f.tagName != "" {
				ft.nameTag = true
			}
			ft.scan(in.kids[i], depth+1, false)
		}
	case kArray, kSlice:
		if in.t.k == kSlice && in.isNil {
			ft.nilSlice = true
		} else if in.t.k == kSlice && len(in.kids) == 0 {
			ft.emptySlice = true
		}
		if in.t.k == kArray && in.t.n == 0 {
			ft.zeroArray = true
		}
		for i, k := range in.kids {
			if i > 0 && sig(k) != sig(in.kids[0]) {
				ft.hetero = true
			}
			ft.scan(k, depth+1, false)
		}
	case kPtr:
		if !in.isNil && countLeavesInWitness(in) > 0 {
			ft.ptr = true
			ft.scan(in.kids[0], depth, top)
		}
	case kIface:
		if !in.isNil && countLeavesInWitness(in) > 0 {
			ft.iface = true
			ft.scan(in.kids[0], depth, top)
		}
	}
}

// anyField reports whether some struct field of the non-omitted part of the instance satisfies p.
func anyField(in *inode, p func(*tfield) bool) bool {
	if in.t.k == kStruct {
		for i := range in.t.fields {
			f := &in.t.fields[i]
			if !f.embedded && f.hasGnark && f.opt == "-" {
				continue
			}
			if p(f) || anyField(in.kids[i], p) {
				return true
			}
		}
		return false
	}
	for _, k := range in.kids {
		if anyField(k, p) {
			return true
		}
	}
	return false
}
