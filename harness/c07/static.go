//go:build verif

package c07

// Static circuit types: the holders of run-time generated struct types and a
// catalogue of what reflect.StructOf cannot express (types with methods such
// as GnarkInitHook, emulated.Element, named slice / array types, embedded
// named types).  Every static type comes with a hand-written descriptor
// (tnode); checkDesc verifies the descriptor against the Go type.

import (
	"reflect"
	"strings"

	"github.com/consensys/gnark/frontend"
	"github.com/consensys/gnark/std/math/emulated"
	"github.com/consensys/gnark/std/math/emulated/emparams"
)

type base struct {
	def func(frontend.API) error
}

func (b *base) Define(api frontend.API) error     { return b.def(api) }
func (b *base) setDef(f func(frontend.API) error) { b.def = f }

type circuitWithDef interface {
	frontend.Circuit
	setDef(func(frontend.API) error)
}

// ---- holders of dynamic struct types

type holderPlain struct {
	base
	X any
}

type holderPub struct {
	X any `gnark:",public"`
	base
}

type holderSec struct {
	X any `gnark:"root,secret"`
	base
}

type holderMulti struct {
	P0 frontend.Variable `gnark:",public"`
	X  any               `gnark:"root"`
	S0 frontend.Variable
	Y  any `gnark:"why,public"`
	O  any `gnark:"-"`
	base
	S1 frontend.Variable `gnark:"last,secret"`
}

// ---- catalogue

// HookList is a custom type in the style of the documentation of the "inherit"
// option, which allocates its variables in GnarkInitHook at compile time.
type HookList struct {
	Vals  []frontend.Variable `gnark:",inherit"`
	calls int
}

func (h *HookList) GnarkInitHook() {
	h.calls++
	if h.Vals == nil {
		h.Vals = make([]frontend.Variable, 3)
	}
}

type catHook struct {
	base
	A   frontend.Variable `gnark:",public"`
	L   HookList          `gnark:"lst,public"`
	Arr [2]HookList
	Sl  []HookList `gnark:",secret"`
	Z   frontend.Variable
	Q   struct {
		H HookList `gnark:",public"`
		B frontend.Variable
	}
}

type catEmu struct {
	A frontend.Variable
	E emulated.Element[emparams.Secp256k1Fp] `gnark:",public"`
	F [2]emulated.Element[emparams.BLS12381Fp]
	G []emulated.Element[emparams.Goldilocks] `gnark:"gold"`
	base
	Z frontend.Variable `gnark:",public"`
}

type Vars []frontend.Variable
type Trio [3]frontend.Variable
type InnerS struct {
	U      frontend.Variable
	hidden int
	V      frontend.Variable `gnark:"vee"`
}
type PtrEmb struct {
	W frontend.Variable `gnark:",public"`
	K [2]frontend.Variable
}

type catNamed struct {
	InnerS
	*PtrEmb
	N     Vars `gnark:",public"`
	T     Trio
	count int
	M     map[string]frontend.Variable
	In    InnerS `gnark:"in,public"`
	base
	PP **InnerS
}

// an unexported field that holds a variable cannot be set by the compiler: Compile must refuse it.
type catUnexportedLeaf struct {
	A frontend.Variable
	b frontend.Variable
	base
}

// ---- descriptor helpers

func fld(name string, t *tnode) tfield { return tfield{name: name, t: t} }

// fldT: gtag is the value of the gnark key ("-", "name", ",opt", "name,opt").
func fldT(name, gtag string, t *tnode) tfield {
	f := tfield{name: name, t: t, hasGnark: true}
	if gtag == "-" {
		f.opt = "-"
		return f
	}
	f.tagName, f.opt, _ = strings.Cut(gtag, ",")
	return f
}
func unexp(name string, rt reflect.Type) tfield {
	return tfield{name: name, unexported: true, t: &tnode{k: kJunk, rt: rt}}
}
func baseField() tfield {
	return tfield{name: "base", embedded: true, unexported: true, t: &tnode{k: kJunk, rt: reflect.TypeOf(base{})}}
}
func structRT(rt reflect.Type, fields ...tfield) *tnode {
	return &tnode{k: kStruct, rt: rt, fields: fields}
}
func junkRT(rt reflect.Type) *tnode { return &tnode{k: kJunk, rt: rt} }

func hookListDesc() *tnode {
	return structRT(reflect.TypeOf(HookList{}),
		fldT("Vals", ",inherit", &tnode{k: kSlice, elem: leafT(), hookLen: 3}),
		unexp("calls", reflect.TypeOf(0)))
}

func emuDesc(rt reflect.Type, nbLimbs int) *tnode {
	ev := tfield{name: "evaluation", unexported: true, hasGnark: true, opt: "-", t: leafT()}
	return structRT(rt,
		fld("Limbs", &tnode{k: kSlice, elem: leafT(), hookLen: nbLimbs}),
		unexp("overflow", reflect.TypeOf(uint(0))),
		unexp("internal", reflect.TypeOf(false)),
		unexp("modReduced", reflect.TypeOf(false)),
		unexp("isEvaluated", reflect.TypeOf(false)),
		ev)
}

func innerSDesc() *tnode {
	return structRT(reflect.TypeOf(InnerS{}), fld("U", leafT()), unexp("hidden", reflect.TypeOf(0)), fldT("V", "vee", leafT()))
}

type staticShape struct {
	name    string
	desc    func(dyn func(vis) *tnode) *tnode // dyn draws a dynamic struct type below the given inherited visibility
	jsonVia string                            // "", "inner:X" (schema.New on the dynamic struct held by X) or "circuit" (frontend.NewSchema)
	noWit   bool                              // Compile must fail; NewWitness is not called
}

func ifaceOf(t *tnode) *tnode { return &tnode{k: kIface, elem: t} }

var holders = []staticShape{
	{name: "holder-plain", jsonVia: "inner:X", desc: func(dyn func(vis) *tnode) *tnode {
		return structRT(reflect.TypeOf(holderPlain{}), baseField(), fld("X", ifaceOf(dyn(vUnset))))
	}},
	{name: "holder-public", desc: func(dyn func(vis) *tnode) *tnode {
		return structRT(reflect.TypeOf(holderPub{}), fldT("X", ",public", ifaceOf(dyn(vPublic))), baseField())
	}},
	{name: "holder-secret", desc: func(dyn func(vis) *tnode) *tnode {
		return structRT(reflect.TypeOf(holderSec{}), fldT("X", "root,secret", ifaceOf(dyn(vSecret))), baseField())
	}},
	{name: "holder-multi", desc: func(dyn func(vis) *tnode) *tnode {
		return structRT(reflect.TypeOf(holderMulti{}),
			fldT("P0", ",public", leafT()),
			fldT("X", "root", ifaceOf(dyn(vUnset))),
			fld("S0", leafT()),
			fldT("Y", "why,public", ifaceOf(dyn(vPublic))),
			fldT("O", "-", ifaceOf(dyn(vUnset))),
			baseField(),
			fldT("S1", "last,secret", leafT()))
	}},
}

var catalogue = []staticShape{
	{name: "cat-init-hook", jsonVia: "circuit", desc: func(func(vis) *tnode) *tnode {
		q := structRT(reflect.TypeOf(catHook{}.Q), fldT("H", ",public", hookListDesc()), fld("B", leafT()))
		return structRT(reflect.TypeOf(catHook{}),
			baseField(),
			fldT("A", ",public", leafT()),
			fldT("L", "lst,public", hookListDesc()),
			fld("Arr", &tnode{k: kArray, n: 2, elem: hookListDesc()}),
			fldT("Sl", ",secret", &tnode{k: kSlice, elem: hookListDesc()}),
			fld("Z", leafT()),
			fld("Q", q))
	}},
	{name: "cat-emulated", jsonVia: "circuit", desc: func(func(vis) *tnode) *tnode {
		return structRT(reflect.TypeOf(catEmu{}),
			fld("A", leafT()),
			fldT("E", ",public", emuDesc(reflect.TypeOf(emulated.Element[emparams.Secp256k1Fp]{}), 4)),
			fld("F", &tnode{k: kArray, n: 2, elem: emuDesc(reflect.TypeOf(emulated.Element[emparams.BLS12381Fp]{}), 6)}),
			fldT("G", "gold", &tnode{k: kSlice, elem: emuDesc(reflect.TypeOf(emulated.Element[emparams.Goldilocks]{}), 1)}),
			baseField(),
			fldT("Z", ",public", leafT()))
	}},
	{name: "cat-named-embedded", jsonVia: "circuit", desc: func(func(vis) *tnode) *tnode {
		ptrEmb := structRT(reflect.TypeOf(PtrEmb{}), fldT("W", ",public", leafT()), fld("K", &tnode{k: kArray, n: 2, elem: leafT()}))
		return structRT(reflect.TypeOf(catNamed{}),
			tfield{name: "InnerS", embedded: true, t: innerSDesc()},
			tfield{name: "PtrEmb", embedded: true, t: &tnode{k: kPtr, elem: ptrEmb}},
			fldT("N", ",public", &tnode{k: kSlice, elem: leafT(), rt: reflect.TypeOf(Vars{})}),
			fld("T", &tnode{k: kArray, n: 3, elem: leafT(), rt: reflect.TypeOf(Trio{})}),
			unexp("count", reflect.TypeOf(0)),
			fld("M", junkRT(reflect.TypeOf(map[string]frontend.Variable{}))),
			fldT("In", "in,public", innerSDesc()),
			baseField(),
			fld("PP", &tnode{k: kPtr, elem: &tnode{k: kPtr, elem: innerSDesc()}}))
	}},
	{name: "cat-unexported-leaf", noWit: true, desc: func(func(vis) *tnode) *tnode {
		return structRT(reflect.TypeOf(catUnexportedLeaf{}),
			fld("A", leafT()),
			tfield{name: "b", unexported: true, t: leafT()},
			baseField())
	}},
}
