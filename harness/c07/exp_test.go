//go:build verif

package c07

import (
	"fmt"
	"math/big"
	"reflect"
	"testing"

	"github.com/consensys/gnark-crypto/ecc"
	"github.com/consensys/gnark/frontend"
	"github.com/consensys/gnark/frontend/cs/r1cs"
	"github.com/consensys/gnark/frontend/cs/scs"
	"github.com/consensys/gnark/logger"
	"github.com/consensys/gnark/internal/smallfields/tinyfield"
)

type holder struct {
	X any
	def func(api frontend.API) error
}

func (h *holder) Define(api frontend.API) error { return h.def(api) }

var tVar = reflect.TypeOf((*frontend.Variable)(nil)).Elem()

func TestExp(t *testing.T) {
	logger.Disable()
	inner := reflect.StructOf([]reflect.StructField{
		{Name: "A", Type: tVar},
		{Name: "B", Type: tVar, Tag: `gnark:",public"`},
	})
	// embedded
	var outer reflect.Type
	pan := func() (p any) {
		defer func() { p = recover() }()
		outer = reflect.StructOf([]reflect.StructField{
			{Name: "Inner", Type: inner, Anonymous: true, Tag: `gnark:",public"`},
			{Name: "C", Type: tVar},
			{Name: "P", Type: reflect.PointerTo(inner)},
			{Name: "S", Type: reflect.SliceOf(inner)},
			{Name: "PV", Type: reflect.PointerTo(tVar)},
			{Name: "M", Type: reflect.TypeOf(map[string]int{})},
			{Name: "I", Type: reflect.TypeOf(0)},
			{Name: "BI", Type: reflect.TypeOf(&big.Int{})},
		})
		return nil
	}()
	fmt.Println("structof panic:", pan, outer)
	// unexported
	pan = func() (p any) {
		defer func() { p = recover() }()
		_ = reflect.StructOf([]reflect.StructField{{Name: "x", PkgPath: "github.com/x/y", Type: tVar}})
		return nil
	}()
	fmt.Println("unexported structof panic:", pan)
	pan = func() (p any) {
		defer func() { p = recover() }()
		_ = reflect.StructOf([]reflect.StructField{{Name: "Inner", Type: reflect.PointerTo(inner), Anonymous: true}})
		return nil
	}()
	fmt.Println("embedded ptr structof panic:", pan)

	mk := func() *holder {
		v := reflect.New(outer)
		v.Elem().FieldByName("S").Set(reflect.MakeSlice(reflect.SliceOf(inner), 2, 2))
		v.Elem().FieldByName("P").Set(reflect.New(inner))
		v.Elem().FieldByName("PV").Set(reflect.New(tVar))
		h := &holder{X: v.Interface()}
		return h
	}
	c := mk()
	c.def = func(api frontend.API) error {
		v := reflect.ValueOf(c.X).Elem()
		api.AssertIsEqual(v.Field(1).Interface(), 5)
		return nil
	}
	for _, f := range []*big.Int{ecc.BN254.ScalarField()} {
		ccs, err := frontend.Compile(f, r1cs.NewBuilder, c, frontend.IgnoreUnconstrainedInputs())
		fmt.Println(err)
		if err == nil {
			sys := reflect.ValueOf(ccs).Elem().FieldByName("System")
			fmt.Println(sys.FieldByName("Public").Interface(), sys.FieldByName("Secret").Interface())
		}
		ccs, err = frontend.Compile(f, scs.NewBuilder, c, frontend.IgnoreUnconstrainedInputs())
		fmt.Println(err)
		if err == nil {
			sys := reflect.ValueOf(ccs).Elem().FieldByName("System")
			fmt.Println(sys.FieldByName("Public").Interface(), sys.FieldByName("Secret").Interface())
		}
	}
	a := mk()
	n := 0
	var fill func(v reflect.Value)
	fill = func(v reflect.Value) {
		switch v.Kind() {
		case reflect.Struct:
			if v.Type() == reflect.TypeOf(big.Int{}) {
				return
			}
			for i := 0; i < v.NumField(); i++ {
				fill(v.Field(i))
			}
		case reflect.Slice:
			for i := 0; i < v.Len(); i++ {
				fill(v.Index(i))
			}
		case reflect.Ptr:
			if !v.IsNil() {
				fill(v.Elem())
			}
		case reflect.Interface:
			if v.Type() == tVar {
				n++
				v.Set(reflect.ValueOf(n))
			}
		}
	}
	fill(reflect.ValueOf(a.X).Elem())
	w, err := frontend.NewWitness(a, ecc.BN254.ScalarField())
	fmt.Println(err)
	fmt.Println(w.Vector())
	s, err := frontend.NewSchema(a)
	fmt.Println(s, err)
	if err == nil {
		js, err := w.ToJSON(s)
		fmt.Println(string(js), err)
	}
	_ = tinyfield.Modulus
}
