//go:build verif

package c07

// Fields under test and the generator of assignment values: for every Go type
// the API accepts, a value together with the integer it denotes (the expected
// witness entry is that integer mod p, computed here with math/big only).

import (
	"fmt"
	"math"
	"math/big"
	"math/rand/v2"
	"strings"

	"github.com/consensys/gnark-crypto/ecc"
	fr_bls12377 "github.com/consensys/gnark-crypto/ecc/bls12-377/fr"
	fr_bls12381 "github.com/consensys/gnark-crypto/ecc/bls12-381/fr"
	fr_bls24315 "github.com/consensys/gnark-crypto/ecc/bls24-315/fr"
	fr_bls24317 "github.com/consensys/gnark-crypto/ecc/bls24-317/fr"
	fr_bn254 "github.com/consensys/gnark-crypto/ecc/bn254/fr"
	fr_bw6633 "github.com/consensys/gnark-crypto/ecc/bw6-633/fr"
	fr_bw6761 "github.com/consensys/gnark-crypto/ecc/bw6-761/fr"
	"github.com/consensys/gnark-crypto/field/babybear"
	"github.com/consensys/gnark-crypto/field/koalabear"
	"github.com/consensys/gnark/internal/smallfields/tinyfield"
)

type fieldInfo struct {
	name    string
	mod     *big.Int
	bytes   int
	small   bool
	elem    func(*big.Int) any // field element (value) holding x mod p
	elemPtr func(*big.Int) any
	foreign func(*big.Int) any // an element of a *different* field (must be rejected)
}

type elemP[E any] interface {
	*E
	SetBigInt(*big.Int) *E
}

func mkVal[E any, P elemP[E]](x *big.Int) any { var e E; P(&e).SetBigInt(x); return e }
func mkPtr[E any, P elemP[E]](x *big.Int) any { e := new(E); P(e).SetBigInt(x); return e }

var allFields = []*fieldInfo{
	{"bn254", ecc.BN254.ScalarField(), fr_bn254.Bytes, false, mkVal[fr_bn254.Element], mkPtr[fr_bn254.Element], mkVal[fr_bls12381.Element]},
	{"bls12-377", ecc.BLS12_377.ScalarField(), fr_bls12377.Bytes, false, mkVal[fr_bls12377.Element], mkPtr[fr_bls12377.Element], mkVal[fr_bn254.Element]},
	{"bw6-761", ecc.BW6_761.ScalarField(), fr_bw6761.Bytes, false, mkVal[fr_bw6761.Element], mkPtr[fr_bw6761.Element], mkPtr[fr_bw6633.Element]},
	{"tinyfield", tinyfield.Modulus(), tinyfield.Bytes, true, mkVal[tinyfield.Element], mkPtr[tinyfield.Element], mkVal[babybear.Element]},
	{"babybear", babybear.Modulus(), babybear.Bytes, true, mkVal[babybear.Element], mkPtr[babybear.Element], mkVal[koalabear.Element]},
	{"koalabear", koalabear.Modulus(), koalabear.Bytes, true, mkVal[koalabear.Element], mkPtr[koalabear.Element], mkPtr[tinyfield.Element]},
	{"bls12-381", ecc.BLS12_381.ScalarField(), fr_bls12381.Bytes, false, mkVal[fr_bls12381.Element], mkPtr[fr_bls12381.Element], mkVal[fr_bls12377.Element]},
	{"bls24-315", ecc.BLS24_315.ScalarField(), fr_bls24315.Bytes, false, mkVal[fr_bls24315.Element], mkPtr[fr_bls24315.Element], mkVal[fr_bls24317.Element]},
	{"bls24-317", ecc.BLS24_317.ScalarField(), fr_bls24317.Bytes, false, mkVal[fr_bls24317.Element], mkPtr[fr_bls24317.Element], mkVal[fr_bls24315.Element]},
	{"bw6-633", ecc.BW6_633.ScalarField(), fr_bw6633.Bytes, false, mkVal[fr_bw6633.Element], mkPtr[fr_bw6633.Element], mkVal[fr_bw6761.Element]},
}

type valKind int

const (
	vkInt valKind = iota
	vkInt8
	vkInt16
	vkInt32
	vkInt64
	vkUint
	vkUint8
	vkUint16
	vkUint32
	vkUint64
	vkBig
	vkBigPtr
	vkStrDec
	vkStrHex
	vkStrOct
	vkStrOct0
	vkStrBin
	vkStrUnderscore
	vkElem
	vkElemPtr
	vkBytes
	nValKinds
)

var valKindNames = [...]string{"int", "int8", "int16", "int32", "int64", "uint", "uint8", "uint16", "uint32", "uint64",
	"big.Int", "*big.Int", "string-dec", "string-hex", "string-octal-0o", "string-octal-0", "string-binary", "string-underscores",
	"field-element", "*field-element", "[]byte"}

type value struct {
	v     any
	x     *big.Int // the integer denoted (before reduction)
	kind  valKind
	class string // magnitude class: in-range / negative / >=modulus
}

func (v *value) String() string {
	s := fmt.Sprintf("%v", v.v)
	switch t := v.v.(type) {
	case big.Int:
		s = t.String()
	case string:
		s = fmt.Sprintf("%q", t)
	case []byte:
		s = fmt.Sprintf("0x%x (len %d)", t, len(t))
	}
	if len(s) > 260 {
		s = s[:260] + "..."
	}
	return fmt.Sprintf("%s(%s)", valKindNames[v.kind], s)
}

func pickI64(rng *rand.Rand, lo, hi int64) int64 {
	switch rng.IntN(10) {
	case 0:
		return lo
	case 1:
		return hi
	case 2:
		if lo < 0 {
			return -1
		}
		return 1
	case 3:
		return int64(rng.IntN(50))
	case 4:
		if lo < 0 {
			return -int64(rng.IntN(50)) - 1
		}
	}
	// uniform in [lo,hi] via big arithmetic to avoid overflow
	span := new(big.Int).Sub(big.NewInt(hi), big.NewInt(lo))
	span.Add(span, big.NewInt(1))
	r := randBig(rng, span)
	r.Add(r, big.NewInt(lo))
	return r.Int64()
}

func pickU64(rng *rand.Rand, hi uint64) uint64 {
	switch rng.IntN(8) {
	case 0:
		return hi
	case 1:
		return hi - uint64(rng.IntN(3))
	case 2:
		return uint64(rng.IntN(50))
	}
	if hi == math.MaxUint64 {
		return rng.Uint64()
	}
	return rng.Uint64N(hi + 1)
}

// randBig returns a uniform integer in [0, n).
func randBig(rng *rand.Rand, n *big.Int) *big.Int {
	if n.Sign() <= 0 {
		return new(big.Int)
	}
	nb := (n.BitLen() + 7) / 8
	b := make([]byte, nb+8)
	for i := range b {
		b[i] = byte(rng.Uint32())
	}
	r := new(big.Int).SetBytes(b)
	return r.Mod(r, n)
}

// pickBig draws an integer of arbitrary size and sign relative to the modulus p.
func pickBig(rng *rand.Rand, p *big.Int, allowNeg bool) *big.Int {
	x := new(big.Int)
	small := big.NewInt(int64(rng.IntN(1000)))
	switch rng.IntN(14) {
	case 0:
		x.Set(small)
	case 1:
		x.Sub(p, big.NewInt(1+int64(rng.IntN(3)))) // p-1 .. p-3
	case 2:
		x.Set(p) // = modulus -> 0
	case 3:
		x.Add(p, small) // just above
	case 4:
		x.Mul(p, big.NewInt(2+int64(rng.IntN(5)))).Add(x, small)
	case 5:
		x.Lsh(big.NewInt(1), uint(rng.IntN(p.BitLen()+70))) // 2^k
		x.Add(x, big.NewInt(int64(rng.IntN(3))-1))
		if x.Sign() < 0 {
			x.SetInt64(0)
		}
	case 6:
		x.Lsh(big.NewInt(1), 600).Add(x, randBig(rng, p)) // huge
	case 7:
		x.Rsh(p, 1).Add(x, big.NewInt(int64(rng.IntN(3)))) // (p-1)/2 ..
	case 8:
		x = randBig(rng, new(big.Int).Lsh(p, 64)) // random, usually >= p
	default:
		x = randBig(rng, p)
	}
	if allowNeg && rng.IntN(4) == 0 {
		x.Neg(x)
	}
	return x
}

func classOf(x, p *big.Int) string {
	switch {
	case x.Sign() < 0:
		return "negative"
	case x.Cmp(p) >= 0:
		return ">=modulus"
	}
	return "in-range"
}

func withUnderscores(rng *rand.Rand, digits string) string {
	// an underscore may appear between successive digits
	var sb strings.Builder
	for i, c := range digits {
		if i > 0 && rng.IntN(3) == 0 {
			sb.WriteByte('_')
		}
		sb.WriteRune(c)
	}
	return sb.String()
}

func genValue(rng *rand.Rand, fi *fieldInfo, k valKind) *value {
	p := fi.mod
	out := &value{kind: k}
	signed := func(lo, hi int64) int64 { return pickI64(rng, lo, hi) }
	switch k {
	case vkInt:
		n := signed(math.MinInt64, math.MaxInt64)
		out.v, out.x = int(n), big.NewInt(n)
	case vkInt8:
		n := signed(math.MinInt8, math.MaxInt8)
		out.v, out.x = int8(n), big.NewInt(n)
	case vkInt16:
		n := signed(math.MinInt16, math.MaxInt16)
		out.v, out.x = int16(n), big.NewInt(n)
	case vkInt32:
		n := signed(math.MinInt32, math.MaxInt32)
		out.v, out.x = int32(n), big.NewInt(n)
	case vkInt64:
		n := signed(math.MinInt64, math.MaxInt64)
		out.v, out.x = n, big.NewInt(n)
	case vkUint:
		n := pickU64(rng, math.MaxUint64)
		out.v, out.x = uint(n), new(big.Int).SetUint64(n)
	case vkUint8:
		n := pickU64(rng, math.MaxUint8)
		out.v, out.x = uint8(n), new(big.Int).SetUint64(n)
	case vkUint16:
		n := pickU64(rng, math.MaxUint16)
		out.v, out.x = uint16(n), new(big.Int).SetUint64(n)
	case vkUint32:
		n := pickU64(rng, math.MaxUint32)
		out.v, out.x = uint32(n), new(big.Int).SetUint64(n)
	case vkUint64:
		n := pickU64(rng, math.MaxUint64)
		out.v, out.x = n, new(big.Int).SetUint64(n)
	case vkBig:
		x := pickBig(rng, p, true)
		out.v, out.x = *new(big.Int).Set(x), x
	case vkBigPtr:
		x := pickBig(rng, p, true)
		out.v, out.x = new(big.Int).Set(x), x
	case vkStrDec:
		x := pickBig(rng, p, true)
		out.v, out.x = x.String(), x
	case vkStrHex, vkStrOct, vkStrOct0, vkStrBin, vkStrUnderscore:
		x := pickBig(rng, p, true)
		abs := new(big.Int).Abs(x)
		var s string
		switch k {
		case vkStrHex:
			s = abs.Text(16)
			if rng.IntN(2) == 0 {
				s = strings.ToUpper(s)
			}
			s = []string{"0x", "0X"}[rng.IntN(2)] + s
		case vkStrOct:
			s = []string{"0o", "0O"}[rng.IntN(2)] + abs.Text(8)
		case vkStrOct0:
			s = "0" + abs.Text(8)
		case vkStrBin:
			s = []string{"0b", "0B"}[rng.IntN(2)] + abs.Text(2)
		case vkStrUnderscore:
			if rng.IntN(2) == 0 {
				s = withUnderscores(rng, abs.String())
			} else {
				s = "0x_" + withUnderscores(rng, abs.Text(16))
			}
		}
		if x.Sign() < 0 {
			s = "-" + s
		} else if rng.IntN(10) == 0 {
			s = "+" + s
		}
		out.v, out.x = s, x
	case vkElem:
		x := randBig(rng, p)
		if rng.IntN(4) == 0 {
			x.Sub(p, big.NewInt(1+int64(rng.IntN(2))))
		}
		out.v, out.x = fi.elem(x), x
	case vkElemPtr:
		x := randBig(rng, p)
		out.v, out.x = fi.elemPtr(x), x
	case vkBytes:
		x := pickBig(rng, p, false)
		var b []byte
		lim := new(big.Int).Lsh(big.NewInt(1), uint(8*fi.bytes))
		switch {
		case x.Cmp(lim) < 0 && rng.IntN(2) == 0:
			b = x.FillBytes(make([]byte, fi.bytes)) // exactly the element size (canonical or not)
		case rng.IntN(3) == 0:
			b = append(make([]byte, 1+rng.IntN(3)), x.Bytes()...) // leading zeros
		default:
			b = x.Bytes()
			if len(b) == 0 {
				b = []byte{}
			}
		}
		out.v, out.x = b, x
	}
	out.class = classOf(out.x, p)
	return out
}

// invalid values: NewWitness must return an error for each of them.
type invalidValue struct {
	name string
	v    func(fi *fieldInfo) any
}

var invalidValues = []invalidValue{
	{"nil", func(*fieldInfo) any { return nil }},
	{"nil-*big.Int", func(*fieldInfo) any { return (*big.Int)(nil) }},
	{"float64", func(*fieldInfo) any { return 1.5 }},
	{"bool", func(*fieldInfo) any { return true }},
	{"struct", func(*fieldInfo) any { return struct{ A int }{3} }},
	{"string-not-a-number", func(*fieldInfo) any { return "12ab" }},
	{"string-empty", func(*fieldInfo) any { return "" }},
	{"string-prefix-only", func(*fieldInfo) any { return "0x" }},
	{"string-decimal-point", func(*fieldInfo) any { return "1.0" }},
	{"element-of-another-field", func(fi *fieldInfo) any { return fi.foreign(big.NewInt(5)) }},
	{"[]int", func(*fieldInfo) any { return []int{1} }},
}
