//go:build verif

// C07 — Witness values bind to the circuit variables they were assigned to.
// Reference-model monitor: circuit struct *types* are generated at run time
// (reflect.StructOf) from a PRNG-drawn shape tree; the harness's own
// implementation of the documented ordering rule, run on the shape tree, says
// what frontend.NewWitness, Witness.Public, the encodings and the compiler's
// input-wire allocation must produce.
package c07

import (
	"bytes"
	"encoding/binary"
	"encoding/json"
	"fmt"
	"math/big"
	"math/rand/v2"
	"reflect"
	"strings"
	"testing"

	"github.com/consensys/gnark/backend/witness"
	"github.com/consensys/gnark/constraint/solver"
	"github.com/consensys/gnark/frontend"
	"github.com/consensys/gnark/frontend/cs/r1cs"
	"github.com/consensys/gnark/frontend/cs/scs"
	"github.com/consensys/gnark/frontend/schema"
	"github.com/consensys/gnark/logger"

	"github.com/consensys/gnark/verifharness/internal/vcore"
)

const maxLeaves = 56

// shapeCase is one circuit structure (type + instance) with the oracle's verdict.
type shapeCase struct {
	label   string
	st      *staticShape
	rootT   *tnode
	root    *inode
	leaves  []*inode
	or      oracleOut
	order   []leafRec // public then secret
	omitted map[int]bool
	feat    features
	// JSON
	jroot    *inode
	jpath    []int // path of jroot from root
	jor      oracleOut
	jfeat    features
	inDomain bool
}

func newShape(rng *rand.Rand, st *staticShape, label string, maxDepth int) (*shapeCase, error) {
	for attempt := 0; attempt < 50; attempt++ {
		g := &gen{rng: rng, maxDepth: maxDepth}
		var rootT *tnode
		if pan, _ := vcore.Catch(func() {
			rootT = st.desc(func(pv vis) *tnode { return g.structT(1, pv) })
			finalize(rootT)
		}); pan != nil {
			return nil, fmt.Errorf("reflect refused the generated type: %v", pan)
		}
		if err := checkDesc(rootT, rootT.rt, st.name); err != nil {
			return nil, err
		}
		ig := &instGen{rng: rng}
		root := ig.inst(rootT, nil)
		if len(ig.leaves) > maxLeaves {
			continue
		}
		sc := &shapeCase{label: label, st: st, rootT: rootT, root: root, leaves: ig.leaves, omitted: map[int]bool{}}
		sc.or.walk(root, vUnset, nil)
		sc.order = append(append([]leafRec(nil), sc.or.pub...), sc.or.sec...)
		if len(sc.order) == 0 && !sc.or.mustErr && attempt < 3 {
			continue // keep structures without any variable rare
		}
		for _, id := range sc.or.omitted {
			sc.omitted[id] = true
		}
		// leaves in unexported fields that are not omitted cannot be part of a compilable circuit
		sc.feat.scan(root, 0, true)
		switch {
		case st.jsonVia == "circuit":
			sc.jroot, sc.jpath = root, nil
		case strings.HasPrefix(st.jsonVia, "inner:"):
			for i := range rootT.fields {
				if rootT.fields[i].name == st.jsonVia[6:] && !root.kids[i].isNil {
					sc.jroot, sc.jpath = root.kids[i].kids[0], []int{i, 0}
				}
			}
		}
		if sc.jroot != nil {
			sc.jor.walk(sc.jroot, vUnset, nil)
			sc.jfeat.scan(sc.jroot, 0, true)
			f := sc.jfeat
			sc.inDomain = !f.embedded && !f.embeddedAny && !f.ptr && !f.iface && !f.hetero && !f.topInherit && !f.topNameOnlyPublic && !f.unexported
		}
		return sc, nil
	}
	return nil, fmt.Errorf("could not draw a shape with <= %d leaves", maxLeaves)
}

func (sc *shapeCase) newValue() reflect.Value { return reflect.New(sc.rootT.rt) }

// ---------------------------------------------------------------- helpers on gnark objects

type bigInter interface{ BigInt(*big.Int) *big.Int }

func vecOf(w witness.Witness) ([]*big.Int, error) {
	v := reflect.ValueOf(w.Vector())
	if v.Kind() != reflect.Slice {
		return nil, fmt.Errorf("Vector() is a %T", w.Vector())
	}
	out := make([]*big.Int, v.Len())
	for i := range out {
		e, ok := v.Index(i).Addr().Interface().(bigInter)
		if !ok {
			return nil, fmt.Errorf("element type %s has no BigInt", v.Index(i).Type())
		}
		out[i] = e.BigInt(new(big.Int))
	}
	return out, nil
}

// encode is the documented binary layout: uint32(nbPublic) | uint32(nbSecret) | uint32(len) | big-endian elements.
func encode(nbPub, nbSec int, vals []*big.Int, size int) []byte {
	var b bytes.Buffer
	var u [4]byte
	for _, n := range []int{nbPub, nbSec, len(vals)} {
		binary.BigEndian.PutUint32(u[:], uint32(n))
		b.Write(u[:])
	}
	for _, v := range vals {
		b.Write(v.FillBytes(make([]byte, size)))
	}
	return b.Bytes()
}

func strs(v []*big.Int) []string {
	s := make([]string, len(v))
	for i := range v {
		s[i] = v[i].String()
	}
	return s
}

func eqVec(a, b []*big.Int) bool {
	if len(a) != len(b) {
		return false
	}
	for i := range a {
		if a[i].Cmp(b[i]) != 0 {
			return false
		}
	}
	return true
}

func isPermutation(a, b []*big.Int) bool {
	if len(a) != len(b) {
		return false
	}
	m := map[string]int{}
	for _, x := range a {
		m[x.String()]++
	}
	for _, x := range b {
		m[x.String()]--
	}
	for _, n := range m {
		if n != 0 {
			return false
		}
	}
	return true
}

type solvable interface {
	Solve(w witness.Witness, opts ...solver.Option) (any, error)
}

func compile(fi *fieldInfo, bname string, c frontend.Circuit) (ccs solvable, err error) {
	pan, stack := vcore.Catch(func() {
		switch {
		case fi.small && bname == "r1cs":
			x, e := frontend.CompileU32(fi.mod, r1cs.NewBuilder, c)
			if err = e; e == nil {
				ccs = x
			}
		case fi.small:
			x, e := frontend.CompileU32(fi.mod, scs.NewBuilder, c)
			if err = e; e == nil {
				ccs = x
			}
		case bname == "r1cs":
			x, e := frontend.Compile(fi.mod, r1cs.NewBuilder, c)
			if err = e; e == nil {
				ccs = x
			}
		default:
			x, e := frontend.Compile(fi.mod, scs.NewBuilder, c)
			if err = e; e == nil {
				ccs = x
			}
		}
	})
	if pan != nil {
		return nil, fmt.Errorf("PANIC: %v\n%s", pan, stack)
	}
	return
}

// sysNames reads the input-wire names the compiler recorded (constraint.System.Public / Secret).
func sysNames(ccs any) (pub, sec []string, ok bool) {
	v := reflect.ValueOf(ccs)
	for v.Kind() == reflect.Ptr || v.Kind() == reflect.Interface {
		v = v.Elem()
	}
	if v.Kind() != reflect.Struct {
		return nil, nil, false
	}
	p, s := v.FieldByName("Public"), v.FieldByName("Secret")
	if !p.IsValid() || !s.IsValid() {
		return nil, nil, false
	}
	pp, ok1 := p.Interface().([]string)
	ss, ok2 := s.Interface().([]string)
	return pp, ss, ok1 && ok2
}

func newWitness(c frontend.Circuit, fi *fieldInfo, opts ...frontend.WitnessOption) (w witness.Witness, err error, pan string) {
	p, stack := vcore.Catch(func() { w, err = frontend.NewWitness(c, fi.mod, opts...) })
	if p != nil {
		return nil, fmt.Errorf("panic: %v", p), fmt.Sprintf("%v\n%s", p, stack)
	}
	return
}

// ---------------------------------------------------------------- one case

type caseRun struct {
	r    *vcore.Run
	sc   *shapeCase
	fi   *fieldInfo
	rng  *rand.Rand
	vals []*value // by leaf id (nil for omitted leaves)
	raw  []any    // by leaf id, what is stored in the assignment
	exp  []*big.Int
}

func (c *caseRun) replay(extra map[string]any) map[string]any {
	m := map[string]any{
		"field": c.fi.name, "holder": c.sc.st.name, "case": c.sc.label,
		"go_type":  c.sc.rootT.rt.String(),
		"instance": describe(c.sc.root),
	}
	var as []string
	for id := range c.sc.leaves {
		switch {
		case c.vals != nil && c.vals[id] != nil:
			as = append(as, fmt.Sprintf("L%d=%s", id, c.vals[id]))
		case c.raw != nil:
			as = append(as, fmt.Sprintf("L%d=(omitted field) %T %v", id, c.raw[id], c.raw[id]))
		}
	}
	m["assignment"] = as
	var ord []string
	for _, l := range c.sc.order {
		ord = append(ord, fmt.Sprintf("L%d:%s:%s", l.id, l.v, l.name))
	}
	m["expected_order"] = ord
	for k, v := range extra {
		m[k] = v
	}
	return m
}

func (c *caseRun) viol(sig, detail string, extra map[string]any) {
	c.r.Count("VIOLATION."+sig, 1)
	c.r.Violation(sig, fmt.Sprintf("%s [%s %s %s]", detail, c.fi.name, c.sc.st.name, c.sc.label), c.replay(extra))
}

func (c *caseRun) assignment(raw []any) frontend.Circuit {
	v := c.sc.newValue()
	b := &builder{assign: true, vals: raw}
	b.build(c.sc.root, v.Elem())
	return v.Interface().(frontend.Circuit)
}

func (c *caseRun) drawValues() {
	n := len(c.sc.leaves)
	c.vals, c.raw, c.exp = make([]*value, n), make([]any, n), make([]*big.Int, n)
	used := map[string]bool{}
	for id := 0; id < n; id++ {
		if c.sc.omitted[id] {
			// a field tagged "-" is not read: anything may sit there, also things no witness could hold
			switch c.rng.IntN(4) {
			case 0:
				c.raw[id] = nil
			case 1:
				c.raw[id] = 3.25
			case 2:
				c.raw[id] = "not a number"
			default:
				c.raw[id] = 777
			}
			continue
		}
		var v *value
		for try := 0; try < 24; try++ {
			v = genValue(c.rng, c.fi, valKind(c.rng.IntN(int(nValKinds))))
			if !used[new(big.Int).Mod(v.x, c.fi.mod).String()] {
				break
			}
		}
		e := new(big.Int).Mod(v.x, c.fi.mod)
		used[e.String()] = true
		c.vals[id], c.raw[id], c.exp[id] = v, v.v, e
	}
}

func (c *caseRun) expectedVector() (all []*big.Int) {
	for _, l := range c.sc.order {
		all = append(all, c.exp[l.id])
	}
	return
}

func runCase(r *vcore.Run, sc *shapeCase, fi *fieldInfo, rng *rand.Rand) {
	c := &caseRun{r: r, sc: sc, fi: fi, rng: rng}
	nontrivial := len(sc.order) >= 2
	r.Eval(fi.name+"|"+sc.label, nontrivial)
	r.Count("cases."+fi.name, 1)
	r.Count("cases.holder."+sc.st.name, 1)

	if sc.st.noWit {
		c.compileMustFail("unexported-leaf")
		return
	}
	c.drawValues()
	asg := c.assignment(c.raw)
	w, err, pan := newWitness(asg, fi)
	if pan != "" {
		c.viol("newwitness-panic", "NewWitness panicked: "+pan, nil)
		return
	}

	// ---- visibility conflicts
	if sc.or.mustErr {
		if err == nil {
			c.viol("conflict-accepted/NewWitness", "NewWitness accepted a structure whose child states a visibility different from its parent's", nil)
		} else {
			r.Count("rejected.visibility-conflict.NewWitness", 1)
			r.SampleClass("visibility-conflict", map[string]any{"go_type": sc.rootT.rt.String(), "error": err.Error()})
		}
		c.compileMustFail("visibility-conflict")
		return
	}
	if err != nil {
		if sc.or.mayErr && strings.Contains(err.Error(), "conflicting visibility") {
			r.Count("tolerated.conflict-on-field-without-variables.rejected", 1)
			return
		}
		c.viol("unexpected-error/NewWitness", "NewWitness failed on a valid assignment: "+err.Error(), nil)
		return
	}
	if sc.or.mayErr {
		r.Count("tolerated.conflict-on-field-without-variables.accepted", 1)
	}

	// ---- the vector
	nbPub, nbSec := len(sc.or.pub), len(sc.or.sec)
	want := c.expectedVector()
	got, verr := vecOf(w)
	if verr != nil {
		r.Inconclusive("vector-unreadable:" + verr.Error())
		return
	}
	if !eqVec(got, want) {
		kind := "value"
		switch {
		case len(got) != len(want):
			kind = "length"
		case isPermutation(got, want):
			kind = "order"
		}
		c.viol("witness-vector/"+kind, "Witness.Vector() differs from the declared order / values mod p", map[string]any{"got": strs(got), "want": strs(want)})
		return
	}
	r.Count("vector.equal", 1)
	r.Count("vector.leaves", len(want))
	for _, l := range sc.order {
		v := c.vals[l.id]
		r.Count("value."+valKindNames[v.kind]+"."+v.class, 1)
	}
	c.countFeatures()

	// ---- binary layout, Public(), PublicOnly
	wantBin := encode(nbPub, nbSec, want, fi.bytes)
	bin, err := w.MarshalBinary()
	if err != nil || !bytes.Equal(bin, wantBin) {
		c.viol("binary/not-the-documented-layout", fmt.Sprintf("MarshalBinary: err=%v", err), map[string]any{"got_hex": fmt.Sprintf("%x", bin), "want_hex": fmt.Sprintf("%x", wantBin)})
		return
	}
	wantPubBin := encode(nbPub, 0, want[:nbPub], fi.bytes)
	if pw, err := w.Public(); err != nil {
		c.viol("public-prefix/Public()", "Public() failed: "+err.Error(), nil)
	} else if pb, err := pw.MarshalBinary(); err != nil || !bytes.Equal(pb, wantPubBin) {
		pv, _ := vecOf(pw)
		c.viol("public-prefix/Public()", fmt.Sprintf("Public() is not the public prefix (err=%v)", err), map[string]any{"got": strs(pv), "want": strs(want[:nbPub]), "got_hex": fmt.Sprintf("%x", pb)})
	} else {
		r.Count("public.Public()-equals-prefix", 1)
		// the public part is a value of its own: what a consumer does to its vector (gnark's
		// Groth16 verifier appends one element per commitment; a caller may overwrite an entry)
		// must not reach the full witness it was taken from
		if rv := reflect.ValueOf(pw.Vector()); rv.Kind() == reflect.Slice {
			mark := reflect.New(rv.Type().Elem()).Elem()
			if f := mark.Addr().MethodByName("SetUint64"); f.IsValid() {
				f.Call([]reflect.Value{reflect.ValueOf(uint64(0x5eed))})
			}
			if rv.Len() > 0 {
				rv.Index(0).Set(mark)
			}
			_ = reflect.Append(rv, mark)
			if after, err := vecOf(w); err != nil || !eqVec(after, want) {
				c.viol("public-part-aliases-full-witness", "writing to / appending to the vector of Public() changed the full witness", map[string]any{"got": strs(after), "want": strs(want)})
			} else {
				r.Count("public.Public()-independent-of-full-witness", 1)
			}
		}
	}
	// public-only witness from an assignment whose secret fields were never assigned (the verifier's side)
	rawPub := append([]any(nil), c.raw...)
	if c.rng.IntN(2) == 0 {
		for _, l := range sc.or.sec {
			rawPub[l.id] = nil
		}
	}
	if pw, err, pan := newWitness(c.assignment(rawPub), fi, frontend.PublicOnly()); pan != "" || err != nil {
		c.viol("public-prefix/PublicOnly", fmt.Sprintf("NewWitness(PublicOnly) failed: %v %s", err, pan), nil)
	} else if pb, err := pw.MarshalBinary(); err != nil || !bytes.Equal(pb, wantPubBin) {
		pv, _ := vecOf(pw)
		c.viol("public-prefix/PublicOnly", fmt.Sprintf("NewWitness(PublicOnly) is not the public prefix (err=%v)", err), map[string]any{"got": strs(pv), "want": strs(want[:nbPub])})
	} else {
		r.Count("public.PublicOnly-equals-prefix", 1)
	}

	// ---- binary round trips
	c.binaryRoundTrip(bin, want)

	// ---- JSON
	if sc.jroot != nil {
		c.jsonChecks(asg, w, want, nbPub)
	}

	// ---- in-circuit binding
	c.binding(w)

	// ---- values no witness can hold
	if c.rng.IntN(5) == 0 && len(sc.order) > 0 {
		c.invalidValue()
	}
	if len(sc.order) >= 2 {
		r.SampleClass("held/"+sc.st.name, map[string]any{"field": fi.name, "go_type": sc.rootT.rt.String(), "instance": describe(sc.root),
			"expected_order": c.replay(nil)["expected_order"], "assignment": c.replay(nil)["assignment"], "vector": strs(got)})
	}
}

func (c *caseRun) countFeatures() {
	f, r := c.sc.feat, c.r
	for name, on := range map[string]bool{"embedded": f.embedded, "pointer": f.ptr, "interface-field": f.iface, "heterogeneous-elements": f.hetero,
		"nil-slice": f.nilSlice, "nil-pointer": f.nilPtr, "empty-slice": f.emptySlice, "omitted-field": f.omit, "inherit-tag": f.inherit, "name-tag": f.nameTag, "zero-length-array": f.zeroArray} {
		if on {
			r.Count("shape.with-"+name, 1)
		}
	}
	r.Count(fmt.Sprintf("shape.depth=%d", f.depth), 1)
	if len(c.sc.or.pub) > 0 && len(c.sc.or.sec) > 0 {
		r.Count("shape.with-public-and-secret", 1)
	}
	if len(c.sc.or.omitted) > 0 {
		r.Count("shape.omitted-leaves", len(c.sc.or.omitted))
	}
}

func (c *caseRun) compileMustFail(why string) {
	cv := c.sc.newValue()
	(&builder{}).build(c.sc.root, cv.Elem())
	circ := cv.Interface().(circuitWithDef)
	circ.setDef(func(frontend.API) error { return nil })
	for _, bname := range []string{"r1cs", "scs"} {
		_, err := compile(c.fi, bname, circ)
		switch {
		case err == nil:
			c.viol("conflict-accepted/Compile", "Compile accepted a structure that must be refused ("+why+") with "+bname, nil)
		case strings.HasPrefix(err.Error(), "PANIC"):
			c.viol("compile-panic", err.Error(), nil)
		default:
			c.r.Count("rejected."+why+".Compile."+bname, 1)
			c.r.SampleClass("compile-refused/"+why, map[string]any{"go_type": c.sc.rootT.rt.String(), "error": firstLine(err.Error())})
		}
	}
}

func firstLine(s string) string {
	if i := strings.IndexByte(s, '\n'); i >= 0 {
		s = s[:i]
	}
	if len(s) > 300 {
		s = s[:300]
	}
	return s
}

func (c *caseRun) binaryRoundTrip(bin []byte, want []*big.Int) {
	r := c.r
	// UnmarshalBinary
	w2, err := witness.New(c.fi.mod)
	if err != nil {
		r.Inconclusive("witness.New:" + err.Error())
		return
	}
	if err := w2.UnmarshalBinary(bin); err != nil {
		c.viol("binary/roundtrip", "UnmarshalBinary refused MarshalBinary's output: "+err.Error(), nil)
		return
	}
	g2, _ := vecOf(w2)
	b2, _ := w2.MarshalBinary()
	if !eqVec(g2, want) || !bytes.Equal(b2, bin) {
		c.viol("binary/roundtrip", "MarshalBinary -> UnmarshalBinary changed the witness", map[string]any{"got": strs(g2), "want": strs(want)})
		return
	}
	// WriteTo / ReadFrom, with trailing bytes after the witness
	var buf bytes.Buffer
	w0, _ := witness.New(c.fi.mod)
	_ = w0.UnmarshalBinary(bin)
	n, err := w0.WriteTo(&buf)
	if err != nil || n != int64(len(bin)) || !bytes.Equal(buf.Bytes(), bin) {
		c.viol("binary/roundtrip", fmt.Sprintf("WriteTo wrote %d bytes (err=%v), MarshalBinary gave %d", n, err, len(bin)), nil)
		return
	}
	buf.Write([]byte{0xde, 0xad})
	w3, _ := witness.New(c.fi.mod)
	m, err := w3.ReadFrom(&buf)
	g3, _ := vecOf(w3)
	if err != nil || m != int64(len(bin)) || !eqVec(g3, want) || buf.Len() != 2 {
		c.viol("binary/roundtrip", fmt.Sprintf("ReadFrom consumed %d of %d bytes (err=%v, %d left)", m, len(bin), err, buf.Len()), map[string]any{"got": strs(g3), "want": strs(want)})
		return
	}
	if pw, err := w3.Public(); err == nil {
		pb, _ := pw.MarshalBinary()
		if !bytes.Equal(pb, encode(len(c.sc.or.pub), 0, want[:len(c.sc.or.pub)], c.fi.bytes)) {
			c.viol("public-prefix/Public()", "Public() of a decoded witness is not the public prefix", nil)
			return
		}
	}
	r.Count("binary.roundtrip-ok", 1)
}

// ---------------------------------------------------------------- JSON

func parseJSONNumber(v any) (*big.Int, bool) {
	switch t := v.(type) {
	case json.Number:
		return new(big.Int).SetString(t.String(), 10)
	case string:
		return new(big.Int).SetString(t, 0)
	}
	return nil, false
}

// jsonLookup follows a leaf's path of names / indices in a decoded JSON document.
func jsonLookup(doc any, in *inode, path []int) (any, string) {
	cur := doc
	for _, i := range path {
		switch in.t.k {
		case kStruct:
			f := &in.t.fields[i]
			m, ok := cur.(map[string]any)
			if !ok {
				return nil, fmt.Sprintf("expected an object at %s", f.name)
			}
			cur, ok = m[f.effName()]
			if !ok {
				return nil, fmt.Sprintf("no key %q", f.effName())
			}
		case kArray, kSlice:
			a, ok := cur.([]any)
			if !ok || i >= len(a) {
				return nil, fmt.Sprintf("expected an array with index %d", i)
			}
			cur = a[i]
		}
		in = in.kids[i]
	}
	return cur, ""
}

func (c *caseRun) jsonChecks(asg frontend.Circuit, w witness.Witness, want []*big.Int, nbPub int) {
	r, sc := c.r, c.sc
	// the oracle's order seen from the JSON root must be the witness order (harness self-check)
	if len(sc.jor.pub) != len(sc.or.pub) || len(sc.jor.sec) != len(sc.or.sec) {
		r.Inconclusive("json-root-does-not-span-the-witness")
		return
	}
	dom := "in-domain"
	if !sc.inDomain {
		dom = "outside-domain"
	}
	newSchema := func() (*schema.Schema, error) {
		if sc.st.jsonVia == "circuit" {
			return frontend.NewSchema(asg)
		}
		obj := resolve(sc.root, reflect.ValueOf(asg).Elem(), sc.jpath).Addr().Interface()
		return schema.New(obj, tVar)
	}
	fail := func(sig, detail string, extra map[string]any) {
		if sc.inDomain {
			c.viol(sig, detail, extra)
		} else {
			r.Count("json.outside-domain."+sig, 1)
			r.SampleClass("json-outside-domain/"+sig, map[string]any{"go_type": sc.rootT.rt.String(), "instance": describe(sc.root), "what": firstLine(detail)})
		}
	}
	var s *schema.Schema
	var err error
	if pan, _ := vcore.Catch(func() { s, err = newSchema() }); pan != nil || err != nil {
		fail("json/schema-error", fmt.Sprintf("schema.New failed: %v %v", err, pan), nil)
		return
	}
	var js []byte
	if pan, _ := vcore.Catch(func() { js, err = w.ToJSON(s) }); pan != nil || err != nil {
		fail("json/ToJSON-error", fmt.Sprintf("ToJSON failed: %v %v", err, pan), nil)
		return
	}
	// every value must sit under the name of the field it was assigned to
	var doc any
	dec := json.NewDecoder(bytes.NewReader(js))
	dec.UseNumber()
	if err := dec.Decode(&doc); err != nil {
		fail("json/ToJSON-invalid", "ToJSON output is not JSON: "+err.Error(), map[string]any{"json": string(js)})
		return
	}
	docOK := true
	for _, l := range sc.order {
		leaf := sc.leaves[l.id]
		rel := leaf.path[len(sc.jpath):]
		v, why := jsonLookup(doc, sc.jroot, rel)
		n, ok := parseJSONNumber(v)
		if ok {
			n.Mod(n, c.fi.mod) // a document may write p-1 as -1: same field element
		}
		if why != "" || !ok || n.Cmp(c.exp[l.id]) != 0 {
			docOK = false
			fail("json/value-not-under-its-field-name", fmt.Sprintf("leaf %s: %s got %v want %s", l.name, why, v, c.exp[l.id]), map[string]any{"json": string(js)})
			break
		}
	}
	// round trip
	w2, _ := witness.New(c.fi.mod)
	s2, _ := newSchema()
	if pan, _ := vcore.Catch(func() { err = w2.FromJSON(s2, js) }); pan != nil || err != nil {
		fail("json/FromJSON-error", fmt.Sprintf("FromJSON refused ToJSON's output: %v %v", err, pan), map[string]any{"json": string(js)})
		return
	}
	g2, _ := vecOf(w2)
	b2, _ := w2.MarshalBinary()
	if !eqVec(g2, want) || !bytes.Equal(b2, encode(nbPub, len(want)-nbPub, want, c.fi.bytes)) {
		// a silently different witness after a round trip is a violation whatever the structure
		c.viol("json/roundtrip-changed-the-witness", "ToJSON -> FromJSON returned without error and gave another vector / header",
			map[string]any{"json": string(js), "got": strs(g2), "want": strs(want), "json_domain": dom})
		return
	}
	if docOK {
		r.Count("json.roundtrip-ok."+dom, 1)
		r.Count("json.roundtrip-ok."+dom+"."+sc.st.name, 1)
	}
	// public part only
	pw, err := w.Public()
	if err != nil {
		return
	}
	s3, _ := newSchema()
	var pjs []byte
	if pan, _ := vcore.Catch(func() { pjs, err = pw.ToJSON(s3) }); pan != nil || err != nil {
		fail("json/ToJSON-error", fmt.Sprintf("ToJSON of the public witness failed: %v %v", err, pan), nil)
		return
	}
	w4, _ := witness.New(c.fi.mod)
	s4, _ := newSchema()
	nbSecBefore := s4.NbSecret
	if pan, _ := vcore.Catch(func() { err = w4.FromJSON(s4, pjs) }); pan != nil || err != nil {
		fail("json/FromJSON-error", fmt.Sprintf("FromJSON refused the public witness's JSON: %v %v", err, pan), map[string]any{"json": string(pjs)})
		return
	}
	b4, _ := w4.MarshalBinary()
	if !bytes.Equal(b4, encode(nbPub, 0, want[:nbPub], c.fi.bytes)) {
		g4, _ := vecOf(w4)
		c.viol("json/roundtrip-changed-the-witness", "public witness: ToJSON -> FromJSON gave another vector / header",
			map[string]any{"json": string(pjs), "got": strs(g4), "want": strs(want[:nbPub]), "json_domain": dom})
		return
	}
	r.Count("json.public-roundtrip-ok."+dom, 1)
	// the schema is an input: decoding a document must leave it usable for the next call
	if sc.inDomain && nbSecBefore > 0 {
		var js5 []byte
		var err5 error
		pan, _ := vcore.Catch(func() { js5, err5 = w.ToJSON(s4) })
		w6, _ := witness.New(c.fi.mod)
		var err6 error
		pan6, _ := vcore.Catch(func() { err6 = w6.FromJSON(s4, js) })
		g6, _ := vecOf(w6)
		if pan != nil || err5 != nil || !bytes.Equal(js5, js) || pan6 != nil || err6 != nil || !eqVec(g6, want) {
			c.viol("json/schema-corrupted-by-FromJSON-of-public-witness",
				fmt.Sprintf("after FromJSON(schema, <public-only document>) the caller's schema has NbSecret=%d (was %d); with that schema ToJSON of the full witness: err=%v panic=%v; FromJSON of the full document: err=%v panic=%v", s4.NbSecret, nbSecBefore, err5, pan, err6, pan6),
				map[string]any{"public_json": string(pjs), "full_json": string(js)})
		} else {
			r.Count("json.schema-reusable-after-public-decode", 1)
		}
	}
}

// ---------------------------------------------------------------- in-circuit binding

func (c *caseRun) binding(w witness.Witness) {
	r, sc := c.r, c.sc
	sentinel := big.NewInt(31337)
	wantPub, wantSec := []string{}, []string{}
	for _, l := range sc.or.pub {
		wantPub = append(wantPub, l.name)
	}
	for _, l := range sc.or.sec {
		wantSec = append(wantSec, l.name)
	}
	// a swapped assignment: two leaves of one visibility group with different values exchange their values
	var swapped witness.Witness
	swapDesc := ""
	for _, grp := range [][]leafRec{sc.or.pub, sc.or.sec} {
		if swapped != nil || len(grp) < 2 {
			continue
		}
		for try := 0; try < 12; try++ {
			i, j := c.rng.IntN(len(grp)), c.rng.IntN(len(grp))
			if c.exp[grp[i].id].Cmp(c.exp[grp[j].id]) == 0 {
				continue
			}
			raw := append([]any(nil), c.raw...)
			raw[grp[i].id], raw[grp[j].id] = raw[grp[j].id], raw[grp[i].id]
			sw, err, pan := newWitness(c.assignment(raw), c.fi)
			if err != nil || pan != "" {
				c.viol("unexpected-error/NewWitness", fmt.Sprintf("NewWitness failed after exchanging two values: %v %s", err, pan), nil)
				return
			}
			swapped, swapDesc = sw, fmt.Sprintf("%s <-> %s (%s)", grp[i].name, grp[j].name, grp[i].v)
			break
		}
	}
	if len(sc.order) == 0 {
		// nothing to bind (and a system without any input or constraint is outside this property)
		r.Count("binding.skipped-no-inputs", 1)
		return
	}
	solve := func(ccs solvable, w witness.Witness) (err error) {
		if pan, stack := vcore.Catch(func() { _, err = ccs.Solve(w) }); pan != nil {
			return fmt.Errorf("PANIC: %v\n%s", pan, stack)
		}
		return err
	}
	for _, bname := range []string{"r1cs", "scs"} {
		cv := sc.newValue()
		(&builder{sentinel: sentinel, omitted: sc.omitted}).build(sc.root, cv.Elem())
		circ := cv.Interface().(circuitWithDef)
		circ.setDef(func(api frontend.API) error {
			// leaf i (located through the shape tree, not through gnark's walker) must equal constant c_i
			for _, l := range sc.order {
				v := resolve(sc.root, cv.Elem(), sc.leaves[l.id].path).Interface()
				api.AssertIsEqual(v, new(big.Int).Set(c.exp[l.id]))
			}
			return nil
		})
		ccs, err := compile(c.fi, bname, circ)
		if err != nil {
			sig := "unexpected-error/Compile"
			if strings.HasPrefix(err.Error(), "PANIC") {
				sig = "compile-panic"
			}
			c.viol(sig, bname+": Compile failed on a valid structure: "+firstLine(err.Error()), map[string]any{"error": err.Error()})
			continue
		}
		// fields tagged "-" must not have been touched
		for id := range sc.omitted {
			lv := resolve(sc.root, cv.Elem(), sc.leaves[id].path)
			if lv.CanInterface() && lv.Interface() != any(sentinel) {
				c.viol("omitted-field-touched", fmt.Sprintf("%s: the compiler wrote to a field tagged \"-\" (leaf L%d)", bname, id), nil)
			}
		}
		// names and counts of the allocated input wires, in allocation order
		if pub, sec, ok := sysNames(ccs); ok {
			if bname == "r1cs" && len(pub) > 0 && pub[0] == "1" {
				pub = pub[1:]
			}
			if strings.Join(pub, "|") != strings.Join(wantPub, "|") || strings.Join(sec, "|") != strings.Join(wantSec, "|") {
				c.viol("compiled-input-names", bname+": the compiler's input wires are not the declared leaves in the declared order",
					map[string]any{"got_public": pub, "got_secret": sec, "want_public": wantPub, "want_secret": wantSec})
			} else {
				r.Count("compile.input-names-equal."+bname, 1)
			}
		} else {
			r.Count("compile.names-unavailable", 1)
		}
		if err := solve(ccs, w); err != nil {
			c.viol("binding/matching-assignment-rejected", bname+": Solve rejected the assignment in which every leaf equals the constant asserted for it: "+firstLine(err.Error()), map[string]any{"error": err.Error()})
			continue
		}
		r.Count("binding.solve-accepted-matching."+bname, 1)
		r.Count("binding.leaves-asserted", len(sc.order))
		if swapped != nil {
			if err := solve(ccs, swapped); err == nil {
				c.viol("binding/swapped-assignment-accepted", bname+": Solve accepted an assignment with two different values exchanged: "+swapDesc, map[string]any{"swap": swapDesc})
			} else {
				r.Count("binding.solve-rejected-swapped."+bname, 1)
				r.SampleClass("swap-rejected/"+bname, map[string]any{"field": c.fi.name, "go_type": sc.rootT.rt.String(), "swap": swapDesc, "solver_said": firstLine(err.Error())})
			}
		}
	}
}

// ---------------------------------------------------------------- invalid values

func (c *caseRun) invalidValue() {
	iv := invalidValues[c.rng.IntN(len(invalidValues))]
	l := c.sc.order[c.rng.IntN(len(c.sc.order))]
	raw := append([]any(nil), c.raw...)
	raw[l.id] = iv.v(c.fi)
	w, err, pan := newWitness(c.assignment(raw), c.fi)
	switch {
	case pan != "":
		c.viol("newwitness-panic", "NewWitness panicked on an unsupported value ("+iv.name+"): "+pan, map[string]any{"leaf": l.name, "value": iv.name})
	case err == nil:
		g, _ := vecOf(w)
		c.viol("invalid-value-accepted", "NewWitness accepted a value that denotes no field element: "+iv.name, map[string]any{"leaf": l.name, "value": iv.name, "got": strs(g)})
	default:
		c.r.Count("rejected.invalid-value."+iv.name, 1)
		c.r.SampleClass("invalid-value/"+iv.name, map[string]any{"field": c.fi.name, "leaf": l.name, "error": err.Error()})
	}
}

// ---------------------------------------------------------------- entry

func TestC07(t *testing.T) {
	logger.Disable()
	r := vcore.Start(t, "C07")
	fields := allFields[:6]
	if !r.Quick() {
		fields = allFields
	}
	nDyn := r.Pick(3000, 40000)
	nCat := r.Pick(40, 400)
	fieldsPerShape := r.Pick(len(fields), len(allFields))

	type job struct {
		st    *staticShape
		label string
		idx   int
	}
	var jobs []job
	for i := 0; i < nDyn; i++ {
		h := &holders[[]int{0, 0, 0, 0, 1, 2, 3, 3}[i%8]]
		jobs = append(jobs, job{h, fmt.Sprintf("dyn/%d", i), i})
	}
	for k := range catalogue {
		n := nCat
		if catalogue[k].noWit {
			n = 2
		}
		for i := 0; i < n; i++ {
			jobs = append(jobs, job{&catalogue[k], fmt.Sprintf("%s/%d", catalogue[k].name, i), i})
		}
	}
	vcore.Parallel(len(jobs), 12, func(k int) {
		j := jobs[k]
		rng := r.Rand(j.label)
		sc, err := newShape(rng, j.st, j.label, 1+j.idx%4)
		if err != nil {
			r.Inconclusive("shape:" + firstLine(err.Error()))
			return
		}
		r.Count("shapes", 1)
		for f := 0; f < fieldsPerShape; f++ {
			fi := fields[f]
			runCase(r, sc, fi, r.Rand(j.label+"/"+fi.name))
		}
	})

	r.Require("vector.equal", 500)
	r.Require("public.Public()-equals-prefix", 500)
	r.Require("public.PublicOnly-equals-prefix", 500)
	r.Require("binary.roundtrip-ok", 500)
	r.Require("json.roundtrip-ok.in-domain", 200)
	r.Require("json.public-roundtrip-ok.in-domain", 200)
	r.Require("binding.solve-accepted-matching.r1cs", 500)
	r.Require("binding.solve-accepted-matching.scs", 500)
	r.Require("binding.solve-rejected-swapped.r1cs", 300)
	r.Require("binding.solve-rejected-swapped.scs", 300)
	r.Require("rejected.visibility-conflict.NewWitness", 20)
	r.Require("rejected.visibility-conflict.Compile.r1cs", 20)
	r.Require("rejected.unexported-leaf.Compile.r1cs", 1)
	r.Require("shape.with-embedded", 50)
	r.Require("shape.with-pointer", 50)
	r.Require("shape.with-inherit-tag", 50)
	r.Require("shape.with-omitted-field", 50)
	r.Require("shape.with-public-and-secret", 200)
	r.Require("cases.holder.cat-init-hook", 10)
	r.Require("cases.holder.cat-emulated", 10)
	for k := valKind(0); k < nValKinds; k++ {
		n := r.Counter("value."+valKindNames[k]+".in-range") + r.Counter("value."+valKindNames[k]+".negative") + r.Counter("value."+valKindNames[k]+".>=modulus")
		if n < 50 {
			t.Errorf("BROKEN-CHECK property=C07: value type %s seen only %d times", valKindNames[k], n)
		}
	}
	r.Finish("exploration",
		"per case: a circuit struct type generated with reflect.StructOf from a PRNG-drawn shape tree (nesting, arrays, slices nil/empty/sized, pointers, any-typed fields, embedded structs, tags name/public/secret/inherit/-/conflicting) held by one of 4 static holder types, or a static catalogue type (GnarkInitHook, emulated.Element, named slice/array types, embedded named types, unexported fields), instantiated, assigned distinct values of every accepted Go type, over one scalar field; expected order/visibility/names from the harness's own walk of the shape tree, expected values = integer mod p by math/big. distinct = (field, shape index); non-trivial = the witness has >= 2 elements",
		[]string{
			"tags on embedded (anonymous) struct fields, several visibility options in one tag, unknown options and names with reserved characters are undocumented and not generated",
			"a visibility conflict on a field that holds no variable may be refused or accepted",
			"JSON: 'don't handle all complex circuit structures well' (witness package doc) is read as: outside structs/arrays/slices with homogeneous elements and without embedded, pointer or interface fields, ToJSON/FromJSON may fail (error or panic), but a round trip that returns without error must still give the same witness",
			"Solve's verdict stands for 'every leaf carries the asserted constant'; the C06 monitor checks the solver itself",
		})
}
