//go:build verif

// Package curves is the registry of per-curve harness code.
package curves

import (
	"os"
	"strings"

	"github.com/consensys/gnark-crypto/ecc"

	bls12377 "github.com/consensys/gnark/verifharness/curves/bls12-377"
	bls12381 "github.com/consensys/gnark/verifharness/curves/bls12-381"
	bls24315 "github.com/consensys/gnark/verifharness/curves/bls24-315"
	bls24317 "github.com/consensys/gnark/verifharness/curves/bls24-317"
	bn254 "github.com/consensys/gnark/verifharness/curves/bn254"
	bw6633 "github.com/consensys/gnark/verifharness/curves/bw6-633"
	bw6761 "github.com/consensys/gnark/verifharness/curves/bw6-761"
	"github.com/consensys/gnark/verifharness/internal/cvapi"
)

// All lists the seven curves, cheapest first.
var All = []*cvapi.Ops{bn254.Ops, bls12377.Ops, bls12381.Ops, bls24315.Ops, bls24317.Ops, bw6633.Ops, bw6761.Ops}

func Get(id ecc.ID) *cvapi.Ops {
	for _, o := range All {
		if o.ID == id {
			return o
		}
	}
	return nil
}

// Tier returns the curves for a tier: quick = bn254, bls12-377, bw6-761.
func Tier(quick bool) []*cvapi.Ops {
	// VERIF_CURVES (comma separated) restricts the curves: used when validating the checks
	// against a seeded change that lives in one curve's generated copy only
	if env := os.Getenv("VERIF_CURVES"); env != "" {
		var out []*cvapi.Ops
		for _, n := range strings.Split(env, ",") {
			for _, o := range All {
				if o.Name == n {
					out = append(out, o)
				}
			}
		}
		if len(out) > 0 {
			return out
		}
	}
	// both tiers cover all seven curves (the per-curve back-ends are separate generated copies:
	// a defect can live in one of them only); the quick tier runs fewer circuits per curve
	_ = quick
	return All
}
