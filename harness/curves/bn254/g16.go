//go:build verif

// Package cv holds the per-curve harness code. This is the bn254 original;
// curves/gen.sh instantiates it for the other curves by textual substitution.
package cv

import (
	"bytes"
	"encoding/binary"
	"fmt"
	"math/big"

	"github.com/consensys/gnark-crypto/ecc"
	curve "github.com/consensys/gnark-crypto/ecc/bn254"
	"github.com/consensys/gnark-crypto/ecc/bn254/fr"
	g16 "github.com/consensys/gnark/backend/groth16/bn254"

	"github.com/consensys/gnark/verifharness/internal/cvapi"
)

var CurveID = ecc.BN254

func g16clone(p *g16.Proof) *g16.Proof {
	q := *p
	if p.Commitments != nil {
		q.Commitments = append([]curve.G1Affine{}, p.Commitments...)
	}
	return &q
}

func g16equal(a, b *g16.Proof) bool {
	if !a.Ar.Equal(&b.Ar) || !a.Krs.Equal(&b.Krs) || !a.Bs.Equal(&b.Bs) || !a.CommitmentPok.Equal(&b.CommitmentPok) || len(a.Commitments) != len(b.Commitments) {
		return false
	}
	for i := range a.Commitments {
		if !a.Commitments[i].Equal(&b.Commitments[i]) {
			return false
		}
	}
	return true
}

type g1leaf struct {
	name string
	get  func(*g16.Proof) *curve.G1Affine
}

func g16g1leaves(p *g16.Proof) []g1leaf {
	ls := []g1leaf{
		{"Ar", func(q *g16.Proof) *curve.G1Affine { return &q.Ar }},
		{"Krs", func(q *g16.Proof) *curve.G1Affine { return &q.Krs }},
		{"CommitmentPok", func(q *g16.Proof) *curve.G1Affine { return &q.CommitmentPok }},
	}
	for i := range p.Commitments {
		i := i
		ls = append(ls, g1leaf{fmt.Sprintf("Commitments[%d]", i), func(q *g16.Proof) *curve.G1Affine { return &q.Commitments[i] }})
	}
	return ls
}

// g16SingleEdits enumerates every single-leaf edit of the proof.
func g16SingleEdits(pa any, donorsA []any, vka any) []cvapi.Edit {
	p := pa.(*g16.Proof)
	vk := vka.(*g16.VerifyingKey)
	_, _, g1gen, g2gen := curve.Generators()
	var out []cvapi.Edit
	add := func(name string, q *g16.Proof) {
		out = append(out, cvapi.Edit{Name: name, Obj: q, Changed: !g16equal(p, q)})
	}
	leaves := g16g1leaves(p)
	for _, l := range leaves {
		// unary edits
		{
			q := g16clone(p)
			x := l.get(q)
			x.Neg(x)
			add(l.name+":=neg", q)
		}
		{
			q := g16clone(p)
			x := l.get(q)
			x.Double(x)
			add(l.name+":=double", q)
		}
		{
			q := g16clone(p)
			*l.get(q) = curve.G1Affine{}
			add(l.name+":=identity", q)
		}
		{
			q := g16clone(p)
			*l.get(q) = g1gen
			add(l.name+":=generator", q)
		}
		{
			q := g16clone(p)
			x := l.get(q)
			x.Add(x, &g1gen)
			add(l.name+":+=generator", q)
		}
		// same-object donors
		for _, m := range leaves {
			if m.name == l.name {
				continue
			}
			q := g16clone(p)
			*l.get(q) = *m.get(p)
			add(l.name+":="+m.name, q)
		}
		// other proofs: same position
		for di, da := range donorsA {
			d := da.(*g16.Proof)
			for _, m := range g16g1leaves(d) {
				if m.name != l.name {
					continue
				}
				q := g16clone(p)
				*l.get(q) = *m.get(d)
				add(fmt.Sprintf("%s:=donor%d.%s", l.name, di, m.name), q)
			}
		}
		// key points
		{
			q := g16clone(p)
			*l.get(q) = vk.G1.Alpha
			add(l.name+":=vk.Alpha", q)
		}
		if len(vk.G1.K) > 0 {
			q := g16clone(p)
			*l.get(q) = vk.G1.K[0]
			add(l.name+":=vk.K[0]", q)
		}
	}
	// Bs
	{
		q := g16clone(p)
		q.Bs.Neg(&q.Bs)
		add("Bs:=neg", q)
	}
	{
		q := g16clone(p)
		q.Bs.Double(&q.Bs)
		add("Bs:=double", q)
	}
	{
		q := g16clone(p)
		q.Bs = curve.G2Affine{}
		add("Bs:=identity", q)
	}
	{
		q := g16clone(p)
		q.Bs = g2gen
		add("Bs:=generator", q)
	}
	{
		q := g16clone(p)
		q.Bs.Add(&q.Bs, &g2gen)
		add("Bs:+=generator", q)
	}
	for di, da := range donorsA {
		d := da.(*g16.Proof)
		q := g16clone(p)
		q.Bs = d.Bs
		add(fmt.Sprintf("Bs:=donor%d.Bs", di), q)
	}
	for name, pt := range map[string]curve.G2Affine{"vk.Beta": vk.G2.Beta, "vk.Gamma": vk.G2.Gamma, "vk.Delta": vk.G2.Delta} {
		q := g16clone(p)
		q.Bs = pt
		add("Bs:="+name, q)
	}
	return out
}

// g16ListEdits enumerates shape edits of the commitment list.
func g16ListEdits(pa any, donorsA []any) []cvapi.Edit {
	p := pa.(*g16.Proof)
	_, _, g1gen, _ := curve.Generators()
	var out []cvapi.Edit
	add := func(name string, q *g16.Proof) {
		out = append(out, cvapi.Edit{Name: name, Obj: q, Changed: !g16equal(p, q)})
	}
	n := len(p.Commitments)
	for k := 0; k < n; k++ { // truncate to k
		q := g16clone(p)
		q.Commitments = q.Commitments[:k]
		add(fmt.Sprintf("Commitments:=truncate(%d)", k), q)
	}
	if n > 0 {
		q := g16clone(p)
		q.Commitments = nil
		add("Commitments:=nil", q)
		q = g16clone(p)
		q.Commitments = append(q.Commitments, q.Commitments[n-1])
		add("Commitments:=dup-last", q)
		q = g16clone(p)
		q.Commitments = q.Commitments[1:]
		add("Commitments:=drop-first", q)
	}
	for i := 0; i < n; i++ {
		for j := i + 1; j < n; j++ {
			q := g16clone(p)
			q.Commitments[i], q.Commitments[j] = q.Commitments[j], q.Commitments[i]
			add(fmt.Sprintf("Commitments:=swap(%d,%d)", i, j), q)
		}
	}
	{
		q := g16clone(p)
		q.Commitments = append(q.Commitments, curve.G1Affine{})
		add("Commitments:=append(identity)", q)
		q = g16clone(p)
		q.Commitments = append(q.Commitments, g1gen)
		add("Commitments:=append(generator)", q)
		q = g16clone(p)
		var neg curve.G1Affine
		neg.Neg(&g1gen)
		q.Commitments = append(q.Commitments, g1gen, neg)
		add("Commitments:=append(generator,-generator)", q)
	}
	for di, da := range donorsA {
		d := da.(*g16.Proof)
		if len(d.Commitments) > 0 {
			q := g16clone(p)
			q.Commitments = append(q.Commitments, d.Commitments[0])
			add(fmt.Sprintf("Commitments:=append(donor%d.Commitments[0])", di), q)
		}
		if len(d.Commitments) == n && n > 0 {
			q := g16clone(p)
			q.Commitments = append([]curve.G1Affine{}, d.Commitments...)
			add(fmt.Sprintf("Commitments:=donor%d.Commitments", di), q)
		}
	}
	return out
}

// g16Surplus appends the attacker-chosen commitment C = sum (x_i - x'_i) K_{i+1}
// which makes the public-input sum of newPub equal that of oldPub.
func g16Surplus(pa any, vka any, oldPub, newPub []*big.Int) any {
	p := pa.(*g16.Proof)
	vk := vka.(*g16.VerifyingKey)
	q := g16clone(p)
	var acc curve.G1Jac
	for i := range oldPub {
		var d fr.Element
		var a, b fr.Element
		a.SetBigInt(oldPub[i])
		b.SetBigInt(newPub[i])
		d.Sub(&a, &b)
		var s big.Int
		d.BigInt(&s)
		var t curve.G1Jac
		t.FromAffine(&vk.G1.K[i+1])
		t.ScalarMultiplication(&t, &s)
		acc.AddAssign(&t)
	}
	var c curve.G1Affine
	c.FromJacobian(&acc)
	q.Commitments = append(q.Commitments, c)
	return q
}

func g16KInfinity(vka any) []bool {
	vk := vka.(*g16.VerifyingKey)
	out := make([]bool, len(vk.G1.K))
	for i := range vk.G1.K {
		out[i] = vk.G1.K[i].IsInfinity()
	}
	return out
}

// g16DeclaredLens walks an encoded proof with the real point decoder and
// returns the slice length the decoder would allocate for (nil when decoding
// fails before the prefix is reached). Used to cap hostile length prefixes
// (DESIGN §2.3: gnark-crypto allocates the declared length before reading).
func g16DeclaredLens(b []byte) []uint32 {
	rd := bytes.NewReader(b)
	dec := curve.NewDecoder(rd)
	var a, k curve.G1Affine
	var bs curve.G2Affine
	if dec.Decode(&a) != nil || dec.Decode(&bs) != nil || dec.Decode(&k) != nil {
		return nil
	}
	off := int(dec.BytesRead())
	if off+4 > len(b) {
		return nil
	}
	return []uint32{binary.BigEndian.Uint32(b[off:])}
}

// g16PrefixOffsets returns the byte offsets of the slice-length prefixes.
func g16PrefixOffsets(b []byte) []int {
	rd := bytes.NewReader(b)
	dec := curve.NewDecoder(rd)
	var a, k curve.G1Affine
	var bs curve.G2Affine
	if dec.Decode(&a) != nil || dec.Decode(&bs) != nil || dec.Decode(&k) != nil {
		return nil
	}
	off := int(dec.BytesRead())
	if off+4 > len(b) {
		return nil
	}
	return []int{off}
}

func init() {
	Ops.G16PrefixOffsets = g16PrefixOffsets
	Ops.G16DeclaredLens = g16DeclaredLens
	Ops.G16Clone = func(p any) any { return g16clone(p.(*g16.Proof)) }
	Ops.G16SingleEdits = g16SingleEdits
	Ops.G16ListEdits = g16ListEdits
	Ops.G16Surplus = g16Surplus
	Ops.G16KInfinity = g16KInfinity
	Ops.G16NbCommitments = func(vk any) int { return len(vk.(*g16.VerifyingKey).PublicAndCommitmentCommitted) }
	Ops.G16ProofEqual = func(a, b any) bool { return g16equal(a.(*g16.Proof), b.(*g16.Proof)) }
	// Cross-commitment audit of the keys Setup produced: a proof of knowledge assembled from
	// the proving-key material of commitment j (Basis[k], BasisExpSigma[k]) must not verify
	// under the verification key of commitment i != j; the own pair must.  Returns the number
	// of pairs tried and a description of every wrong outcome.
	Ops.Ext["G16CrossCommitmentKeys"] = func(pka, vka any) (int, []string) {
		pk := pka.(*g16.ProvingKey)
		vk := vka.(*g16.VerifyingKey)
		var bad []string
		n := 0
		for j := range pk.CommitmentKeys {
			// a basis element which is not the point at infinity: the base of a committed wire that
			// occurs in no constraint is the identity, and (identity, identity) is a valid knowledge
			// proof under every key (it says nothing about the keys)
			k := -1
			for b := range pk.CommitmentKeys[j].Basis {
				if !pk.CommitmentKeys[j].Basis[b].IsInfinity() {
					k = b
					break
				}
			}
			if k < 0 {
				continue
			}
			for i := range vk.CommitmentKeys {
				n++
				err := vk.CommitmentKeys[i].Verify(pk.CommitmentKeys[j].Basis[k], pk.CommitmentKeys[j].BasisExpSigma[k])
				if i == j && err != nil {
					bad = append(bad, fmt.Sprintf("own-pair-rejected: commitment %d: %v", i, err))
				}
				if i != j && err == nil {
					bad = append(bad, fmt.Sprintf("foreign-pair-accepted: knowledge proof built from the key of commitment %d verifies under the key of commitment %d", j, i))
				}
			}
		}
		return n, bad
	}
	// equality of everything but CommitmentPok (a component the verification
	// equations of a key without commitments never read)
	Ops.Ext["G16ProofEqualButPok"] = func(a, b any) bool {
		x := g16clone(a.(*g16.Proof))
		x.CommitmentPok = b.(*g16.Proof).CommitmentPok
		return g16equal(x, b.(*g16.Proof))
	}
}
