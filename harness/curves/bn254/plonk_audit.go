//go:build verif

package cv

import (
	"fmt"
	"math/big"

	"github.com/consensys/gnark-crypto/ecc/bn254/fr"
	"github.com/consensys/gnark-crypto/ecc/bn254/fr/fft"
	"github.com/consensys/gnark-crypto/ecc/bn254/kzg"
	plk "github.com/consensys/gnark/backend/plonk/bn254"
	"github.com/consensys/gnark/constraint"
	cs "github.com/consensys/gnark/constraint/bn254"
)

// plkAudit recomputes, from the exported gates and coefficient table, what a
// correct Setup must have produced, and compares with the verifying key and
// with the exported trace. Returns the list of discrepancies and what was checked.
func plkAudit(ccsA any, vka any, srsLagA any) (problems []string, stats map[string]int) {
	stats = map[string]int{}
	bad := func(f string, a ...any) { problems = append(problems, fmt.Sprintf(f, a...)) }
	spr := ccsA.(*cs.SparseR1CS)
	vk := vka.(*plk.VerifyingKey)
	srsLag := srsLagA.(*kzg.SRS)
	gates := spr.GetSparseR1Cs()
	nbPub := len(spr.Public)
	n := 1
	for n < len(gates)+nbPub {
		n <<= 1
	}
	// ---- scalar fields of the key
	if vk.Size != uint64(n) {
		bad("vk.Size=%d want %d", vk.Size, n)
		return
	}
	var t, nEl fr.Element
	nEl.SetUint64(uint64(n))
	t.Mul(&nEl, &vk.SizeInv)
	if !t.IsOne() {
		bad("vk.SizeInv * Size != 1")
	}
	// generator: primitive n-th root of unity
	var g fr.Element
	g.Exp(vk.Generator, big.NewInt(int64(n)))
	if !g.IsOne() {
		bad("vk.Generator^n != 1")
	}
	if n > 1 {
		g.Exp(vk.Generator, big.NewInt(int64(n/2)))
		if g.IsOne() {
			bad("vk.Generator has order < n")
		}
	}
	// coset shift u: u and u^2 must lie outside <g> and in distinct cosets: u^n != 1, u^(2n) != 1
	g.Exp(vk.CosetShift, big.NewInt(int64(n)))
	if g.IsOne() {
		bad("vk.CosetShift lies in the domain")
	}
	g.Exp(vk.CosetShift, big.NewInt(int64(2*n)))
	if g.IsOne() {
		bad("vk.CosetShift^2 lies in the domain")
	}
	if vk.NbPublicVariables != uint64(nbPub) {
		bad("vk.NbPublicVariables=%d want %d", vk.NbPublicVariables, nbPub)
	}
	ci := spr.CommitmentInfo.(constraint.PlonkCommitments)
	if len(vk.CommitmentConstraintIndexes) != len(ci) || len(vk.Qcp) != len(ci) {
		bad("commitment count: vk has %d indexes / %d Qcp, system has %d", len(vk.CommitmentConstraintIndexes), len(vk.Qcp), len(ci))
		return
	}
	for i := range ci {
		if vk.CommitmentConstraintIndexes[i] != uint64(ci[i].CommitmentIndex) {
			bad("vk.CommitmentConstraintIndexes[%d]=%d want %d", i, vk.CommitmentConstraintIndexes[i], ci[i].CommitmentIndex)
		}
	}
	stats["scalar-fields"] = 7

	// ---- selector columns recomputed from gates
	ql := make([]fr.Element, n)
	qr := make([]fr.Element, n)
	qm := make([]fr.Element, n)
	qo := make([]fr.Element, n)
	qk := make([]fr.Element, n)
	for i := 0; i < nbPub; i++ {
		ql[i].SetOne()
		ql[i].Neg(&ql[i])
	}
	for j, c := range gates {
		ql[nbPub+j] = spr.Coefficients[c.QL]
		qr[nbPub+j] = spr.Coefficients[c.QR]
		qm[nbPub+j] = spr.Coefficients[c.QM]
		qo[nbPub+j] = spr.Coefficients[c.QO]
		qk[nbPub+j] = spr.Coefficients[c.QC]
	}
	commitCol := func(name string, col []fr.Element, got kzg.Digest) {
		want, err := kzg.Commit(col, srsLag.Pk)
		if err != nil {
			bad("commit %s: %v", name, err)
			return
		}
		stats["vk-commitments"]++
		if !want.Equal(&got) {
			bad("vk.%s is not the commitment to the recomputed column", name)
		}
	}
	commitCol("Ql", ql, vk.Ql)
	commitCol("Qr", qr, vk.Qr)
	commitCol("Qm", qm, vk.Qm)
	commitCol("Qo", qo, vk.Qo)
	commitCol("Qk", qk, vk.Qk)
	for i := range ci {
		col := make([]fr.Element, n)
		for _, committed := range ci[i].Committed {
			col[nbPub+committed].SetOne()
		}
		commitCol(fmt.Sprintf("Qcp[%d]", i), col, vk.Qcp[i])
		// the committed rows must be COMMITTED-marked gates and the commitment row COMMITMENT-marked
		if ci[i].CommitmentIndex >= len(gates) || gates[ci[i].CommitmentIndex].Commitment != constraint.COMMITMENT {
			bad("commitment %d: row %d is not marked COMMITMENT", i, ci[i].CommitmentIndex)
		}
	}

	// ---- permutation: position sets per wire
	pos := make([]int, 3*n) // position -> wire
	for j, c := range gates {
		pos[nbPub+j] = int(c.XA)
		pos[n+nbPub+j] = int(c.XB)
		pos[2*n+nbPub+j] = int(c.XC)
	}
	for i := 0; i < nbPub; i++ {
		pos[i] = i
	}
	nbWires := spr.NbInternalVariables + len(spr.Public) + len(spr.Secret)
	count := make([]int, nbWires)
	for _, w := range pos {
		count[w]++
	}
	domain := fft.NewDomain(uint64(n))
	if !domain.Generator.Equal(&vk.Generator) {
		bad("vk.Generator differs from fft.NewDomain(n).Generator")
	}
	if !domain.FrMultiplicativeGen.Equal(&vk.CosetShift) {
		bad("vk.CosetShift differs from the domain's multiplicative generator")
	}
	trace := plk.NewTrace(spr, domain)
	S := trace.S
	if len(S) != 3*n {
		bad("len(trace.S)=%d want %d", len(S), 3*n)
		return
	}
	seen := make([]bool, 3*n)
	for i, s := range S {
		if s < 0 || int(s) >= 3*n {
			bad("trace.S[%d]=%d out of range", i, s)
			return
		}
		if seen[s] {
			bad("trace.S is not a permutation: %d hit twice", s)
			return
		}
		seen[s] = true
		if pos[s] != pos[i] {
			bad("trace.S maps position %d (wire %d) to position %d (wire %d): two wires merged", i, pos[i], s, pos[s])
		}
	}
	// each wire's positions form exactly one cycle
	visited := make([]bool, 3*n)
	cyclesPerWire := make([]int, nbWires)
	for i := 0; i < 3*n; i++ {
		if visited[i] {
			continue
		}
		l := 0
		for j := i; !visited[j]; j = int(S[j]) {
			visited[j] = true
			l++
		}
		cyclesPerWire[pos[i]]++
		if l != count[pos[i]] {
			bad("wire %d: cycle of length %d but the wire occupies %d positions (wire split over several cycles)", pos[i], l, count[pos[i]])
		}
	}
	stats["permutation-positions"] = 3 * n
	stats["wires"] = nbWires
	// ---- S1,S2,S3 = S applied to the coset-shifted identity
	support := make([]fr.Element, 3*n)
	support[0].SetOne()
	support[n].Set(&vk.CosetShift)
	support[2*n].Square(&vk.CosetShift)
	for i := 1; i < n; i++ {
		support[i].Mul(&support[i-1], &vk.Generator)
		support[n+i].Mul(&support[n+i-1], &vk.Generator)
		support[2*n+i].Mul(&support[2*n+i-1], &vk.Generator)
	}
	for k, poly := range []([]fr.Element){trace.S1.Coefficients(), trace.S2.Coefficients(), trace.S3.Coefficients()} {
		col := make([]fr.Element, n)
		for i := 0; i < n; i++ {
			col[i] = support[S[k*n+i]]
			if !poly[i].Equal(&col[i]) {
				bad("trace.S%d[%d] != support[S[%d]]", k+1, i, k*n+i)
				break
			}
		}
		commitCol(fmt.Sprintf("S[%d]", k), col, vk.S[k])
	}
	// ---- selector columns of the trace
	for name, pair := range map[string][2][]fr.Element{"Ql": {ql, trace.Ql.Coefficients()}, "Qr": {qr, trace.Qr.Coefficients()}, "Qm": {qm, trace.Qm.Coefficients()}, "Qo": {qo, trace.Qo.Coefficients()}, "Qk": {qk, trace.Qk.Coefficients()}} {
		for i := range pair[0] {
			if !pair[0][i].Equal(&pair[1][i]) {
				bad("trace.%s[%d] differs from the recomputed selector", name, i)
				break
			}
		}
	}
	return
}

func init() {
	Ops.Ext["PlonkAudit"] = plkAudit
}
