//go:build verif

package cv

import (
	"fmt"

	g16 "github.com/consensys/gnark/backend/groth16/bn254"
	plk "github.com/consensys/gnark/backend/plonk/bn254"

	"github.com/consensys/gnark/verifharness/internal/cvapi"
)

// g16Elems lists the group elements of a Groth16 proof by name (compressed bytes, hex).
func g16Elems(pa any) []cvapi.Elem {
	p := pa.(*g16.Proof)
	out := []cvapi.Elem{
		{Name: "Ar", Hex: fmt.Sprintf("%x", p.Ar.Bytes())},
		{Name: "Bs", Hex: fmt.Sprintf("%x", p.Bs.Bytes())},
		{Name: "Krs", Hex: fmt.Sprintf("%x", p.Krs.Bytes())},
		{Name: "CommitmentPok", Hex: fmt.Sprintf("%x", p.CommitmentPok.Bytes())},
	}
	for i := range p.Commitments {
		out = append(out, cvapi.Elem{Name: fmt.Sprintf("Commitments[%d]", i), Hex: fmt.Sprintf("%x", p.Commitments[i].Bytes())})
	}
	return out
}

func plkElems(pa any) []cvapi.Elem {
	p := pa.(*plk.Proof)
	var out []cvapi.Elem
	for i := 0; i < 3; i++ {
		out = append(out, cvapi.Elem{Name: fmt.Sprintf("LRO[%d]", i), Hex: fmt.Sprintf("%x", p.LRO[i].Bytes())})
	}
	out = append(out, cvapi.Elem{Name: "Z", Hex: fmt.Sprintf("%x", p.Z.Bytes())})
	for i := 0; i < 3; i++ {
		out = append(out, cvapi.Elem{Name: fmt.Sprintf("H[%d]", i), Hex: fmt.Sprintf("%x", p.H[i].Bytes())})
	}
	for i := range p.Bsb22Commitments {
		out = append(out, cvapi.Elem{Name: fmt.Sprintf("Bsb22Commitments[%d]", i), Hex: fmt.Sprintf("%x", p.Bsb22Commitments[i].Bytes())})
	}
	out = append(out, cvapi.Elem{Name: "BatchedProof.H", Hex: fmt.Sprintf("%x", p.BatchedProof.H.Bytes())})
	out = append(out, cvapi.Elem{Name: "ZShiftedOpening.H", Hex: fmt.Sprintf("%x", p.ZShiftedOpening.H.Bytes())})
	return out
}

func init() {
	Ops.G16Elems = g16Elems
	Ops.PlonkElems = plkElems
}
