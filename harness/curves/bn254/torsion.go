//go:build verif

package cv

import (
	curve "github.com/consensys/gnark-crypto/ecc/bn254"
	"github.com/consensys/gnark-crypto/ecc/bn254/fp"
	"github.com/consensys/gnark-crypto/ecc/bn254/fr"
	g16 "github.com/consensys/gnark/backend/groth16/bn254"
	plk "github.com/consensys/gnark/backend/plonk/bn254"

	"github.com/consensys/gnark/verifharness/internal/cvapi"
)

// g1Torsion returns a non-zero point of E(Fp) whose order divides the G1 cofactor
// (ok=false when the cofactor is 1, as for BN curves): T = [r]P for a curve point P found
// by trial x-coordinates. The scalar multiplication is a plain double-and-add (the library's
// GLV routine is only valid inside the r-torsion subgroup).
func g1Torsion() (t curve.G1Affine, ok bool) {
	_, _, g, _ := curve.Generators()
	var b, x3 fp.Element
	x3.Square(&g.X).Mul(&x3, &g.X)
	b.Square(&g.Y).Sub(&b, &x3) // b = y^2 - x^3
	r := fr.Modulus()
	for xi := uint64(1); xi < 200; xi++ {
		var p curve.G1Affine
		p.X.SetUint64(xi)
		var rhs fp.Element
		rhs.Square(&p.X).Mul(&rhs, &p.X).Add(&rhs, &b)
		if rhs.Legendre() != 1 {
			continue
		}
		p.Y.Sqrt(&rhs)
		if !p.IsOnCurve() {
			continue
		}
		var acc, base curve.G1Jac
		base.FromAffine(&p)
		for i := r.BitLen() - 1; i >= 0; i-- {
			acc.DoubleAssign()
			if r.Bit(i) == 1 {
				acc.AddAssign(&base)
			}
		}
		t.FromJacobian(&acc)
		if !t.IsInfinity() && t.IsOnCurve() && !t.IsInSubGroup() {
			return t, true
		}
	}
	return t, false
}

// g16TorsionEdits: proof elements moved outside the prime-order subgroup by a small-order
// point, singly and in cancelling pairs (Ar+T with Krs-T): every such proof must be rejected.
func g16TorsionEdits(pa any) []cvapi.Edit {
	p := pa.(*g16.Proof)
	t, ok := g1Torsion()
	if !ok {
		return nil
	}
	var nt curve.G1Affine
	nt.Neg(&t)
	var out []cvapi.Edit
	add := func(name string, q *g16.Proof) {
		out = append(out, cvapi.Edit{Name: name, Obj: q, Changed: !g16equal(p, q)})
	}
	q := g16clone(p)
	q.Ar.Add(&q.Ar, &t)
	add("Ar:+=torsion", q)
	q = g16clone(p)
	q.Krs.Add(&q.Krs, &t)
	add("Krs:+=torsion", q)
	q = g16clone(p)
	q.Ar.Add(&q.Ar, &t)
	q.Krs.Add(&q.Krs, &nt)
	add("Ar:+=torsion,Krs:-=torsion", q)
	q = g16clone(p)
	q.Ar.Add(&q.Ar, &t)
	q.Krs.Add(&q.Krs, &t)
	add("Ar:+=torsion,Krs:+=torsion", q)
	for i := range p.Commitments {
		q = g16clone(p)
		q.Commitments[i].Add(&q.Commitments[i], &t)
		add("Commitments[i]:+=torsion", q)
		q = g16clone(p)
		q.Commitments[i].Add(&q.Commitments[i], &t)
		q.Krs.Add(&q.Krs, &nt)
		add("Commitments[i]:+=torsion,Krs:-=torsion", q)
		break
	}
	q = g16clone(p)
	q.CommitmentPok.Add(&q.CommitmentPok, &t)
	add("CommitmentPok:+=torsion", q)
	return out
}

// plkTorsionEdits: every G1 element of a PLONK proof in turn moved outside the prime-order
// subgroup by a small-order point (the reduced pairing does not see such a shift, only the
// verifier's subgroup checks do): every such proof must be rejected.
func plkTorsionEdits(pa any) []cvapi.Edit {
	p := pa.(*plk.Proof)
	t, ok := g1Torsion()
	if !ok {
		return nil
	}
	var out []cvapi.Edit
	for _, l := range plkG1Leaves(p) {
		q := plkClone(p)
		x := l.get(q)
		x.Add(x, &t)
		out = append(out, cvapi.Edit{Name: l.name + ":+=torsion", Obj: q, Changed: !plkEqual(p, q)})
	}
	return out
}

func init() {
	Ops.Ext["G16TorsionEdits"] = g16TorsionEdits
	Ops.Ext["PlonkTorsionEdits"] = plkTorsionEdits
}
