//go:build verif

package cv

import (
	"bytes"
	"encoding/binary"
	"fmt"

	curve "github.com/consensys/gnark-crypto/ecc/bn254"
	"github.com/consensys/gnark-crypto/ecc/bn254/fr"
	plk "github.com/consensys/gnark/backend/plonk/bn254"

	"github.com/consensys/gnark/verifharness/internal/cvapi"
)

func plkClone(p *plk.Proof) *plk.Proof {
	q := *p
	if p.Bsb22Commitments != nil {
		q.Bsb22Commitments = append([]curve.G1Affine{}, p.Bsb22Commitments...)
	}
	if p.BatchedProof.ClaimedValues != nil {
		q.BatchedProof.ClaimedValues = append([]fr.Element{}, p.BatchedProof.ClaimedValues...)
	}
	return &q
}

func plkEqual(a, b *plk.Proof) bool {
	for i := 0; i < 3; i++ {
		if !a.LRO[i].Equal(&b.LRO[i]) || !a.H[i].Equal(&b.H[i]) {
			return false
		}
	}
	if !a.Z.Equal(&b.Z) || !a.BatchedProof.H.Equal(&b.BatchedProof.H) || !a.ZShiftedOpening.H.Equal(&b.ZShiftedOpening.H) ||
		!a.ZShiftedOpening.ClaimedValue.Equal(&b.ZShiftedOpening.ClaimedValue) ||
		len(a.Bsb22Commitments) != len(b.Bsb22Commitments) || len(a.BatchedProof.ClaimedValues) != len(b.BatchedProof.ClaimedValues) {
		return false
	}
	for i := range a.Bsb22Commitments {
		if !a.Bsb22Commitments[i].Equal(&b.Bsb22Commitments[i]) {
			return false
		}
	}
	for i := range a.BatchedProof.ClaimedValues {
		if !a.BatchedProof.ClaimedValues[i].Equal(&b.BatchedProof.ClaimedValues[i]) {
			return false
		}
	}
	return true
}

type plkG1Leaf struct {
	name string
	get  func(*plk.Proof) *curve.G1Affine
}

func plkG1Leaves(p *plk.Proof) []plkG1Leaf {
	var ls []plkG1Leaf
	for i := 0; i < 3; i++ {
		i := i
		ls = append(ls, plkG1Leaf{fmt.Sprintf("LRO[%d]", i), func(q *plk.Proof) *curve.G1Affine { return &q.LRO[i] }})
	}
	ls = append(ls, plkG1Leaf{"Z", func(q *plk.Proof) *curve.G1Affine { return &q.Z }})
	for i := 0; i < 3; i++ {
		i := i
		ls = append(ls, plkG1Leaf{fmt.Sprintf("H[%d]", i), func(q *plk.Proof) *curve.G1Affine { return &q.H[i] }})
	}
	for i := range p.Bsb22Commitments {
		i := i
		ls = append(ls, plkG1Leaf{fmt.Sprintf("Bsb22Commitments[%d]", i), func(q *plk.Proof) *curve.G1Affine { return &q.Bsb22Commitments[i] }})
	}
	ls = append(ls, plkG1Leaf{"BatchedProof.H", func(q *plk.Proof) *curve.G1Affine { return &q.BatchedProof.H }})
	ls = append(ls, plkG1Leaf{"ZShiftedOpening.H", func(q *plk.Proof) *curve.G1Affine { return &q.ZShiftedOpening.H }})
	return ls
}

type plkFrLeaf struct {
	name string
	get  func(*plk.Proof) *fr.Element
}

func plkFrLeaves(p *plk.Proof) []plkFrLeaf {
	var ls []plkFrLeaf
	for i := range p.BatchedProof.ClaimedValues {
		i := i
		ls = append(ls, plkFrLeaf{fmt.Sprintf("BatchedProof.ClaimedValues[%d]", i), func(q *plk.Proof) *fr.Element { return &q.BatchedProof.ClaimedValues[i] }})
	}
	ls = append(ls, plkFrLeaf{"ZShiftedOpening.ClaimedValue", func(q *plk.Proof) *fr.Element { return &q.ZShiftedOpening.ClaimedValue }})
	return ls
}

// plkSingleEdits enumerates every single-leaf edit of a PLONK proof.
func plkSingleEdits(pa any, donorsA []any, vka any) []cvapi.Edit {
	p := pa.(*plk.Proof)
	vk := vka.(*plk.VerifyingKey)
	_, _, g1gen, _ := curve.Generators()
	var out []cvapi.Edit
	add := func(name string, q *plk.Proof) {
		out = append(out, cvapi.Edit{Name: name, Obj: q, Changed: !plkEqual(p, q)})
	}
	leaves := plkG1Leaves(p)
	for _, l := range leaves {
		{
			q := plkClone(p)
			x := l.get(q)
			x.Neg(x)
			add(l.name+":=neg", q)
		}
		{
			q := plkClone(p)
			x := l.get(q)
			x.Double(x)
			add(l.name+":=double", q)
		}
		{
			q := plkClone(p)
			*l.get(q) = curve.G1Affine{}
			add(l.name+":=identity", q)
		}
		{
			q := plkClone(p)
			*l.get(q) = g1gen
			add(l.name+":=generator", q)
		}
		{
			q := plkClone(p)
			x := l.get(q)
			x.Add(x, &g1gen)
			add(l.name+":+=generator", q)
		}
		for _, m := range leaves {
			if m.name == l.name {
				continue
			}
			q := plkClone(p)
			*l.get(q) = *m.get(p)
			add(l.name+":="+m.name, q)
		}
		for di, da := range donorsA {
			d := da.(*plk.Proof)
			for _, m := range plkG1Leaves(d) {
				if m.name != l.name {
					continue
				}
				q := plkClone(p)
				*l.get(q) = *m.get(d)
				add(fmt.Sprintf("%s:=donor%d.%s", l.name, di, m.name), q)
			}
		}
		{
			q := plkClone(p)
			*l.get(q) = vk.Ql
			add(l.name+":=vk.Ql", q)
		}
		{
			q := plkClone(p)
			*l.get(q) = vk.S[0]
			add(l.name+":=vk.S[0]", q)
		}
	}
	var one fr.Element
	one.SetOne()
	frLeaves := plkFrLeaves(p)
	for li, l := range frLeaves {
		{
			q := plkClone(p)
			x := l.get(q)
			x.Add(x, &one)
			add(l.name+":+=1", q)
		}
		{
			q := plkClone(p)
			x := l.get(q)
			x.Sub(x, &one)
			add(l.name+":-=1", q)
		}
		{
			q := plkClone(p)
			l.get(q).SetZero()
			add(l.name+":=0", q)
		}
		{
			q := plkClone(p)
			x := l.get(q)
			x.Neg(x)
			add(l.name+":=neg", q)
		}
		{
			q := plkClone(p)
			x := l.get(q)
			x.Double(x)
			add(l.name+":=double", q)
		}
		if li+1 < len(frLeaves) {
			q := plkClone(p)
			m := frLeaves[li+1]
			a, b := l.get(q), m.get(q)
			*a, *b = *b, *a
			add(l.name+":=swap-with-next", q)
		}
		for di, da := range donorsA {
			d := da.(*plk.Proof)
			for _, m := range plkFrLeaves(d) {
				if m.name != l.name {
					continue
				}
				q := plkClone(p)
				*l.get(q) = *m.get(d)
				add(fmt.Sprintf("%s:=donor%d.%s", l.name, di, m.name), q)
			}
		}
	}
	return out
}

// plkListEdits enumerates shape edits of the variable-length parts.
func plkListEdits(pa any, donorsA []any) []cvapi.Edit {
	p := pa.(*plk.Proof)
	_, _, g1gen, _ := curve.Generators()
	var out []cvapi.Edit
	add := func(name string, q *plk.Proof) {
		out = append(out, cvapi.Edit{Name: name, Obj: q, Changed: !plkEqual(p, q)})
	}
	nc := len(p.BatchedProof.ClaimedValues)
	for k := 0; k < nc; k++ {
		q := plkClone(p)
		q.BatchedProof.ClaimedValues = q.BatchedProof.ClaimedValues[:k]
		add(fmt.Sprintf("ClaimedValues:=truncate(%d)", k), q)
	}
	{
		q := plkClone(p)
		q.BatchedProof.ClaimedValues = nil
		add("ClaimedValues:=nil", q)
		for ext := 1; ext <= 3; ext++ {
			q = plkClone(p)
			for e := 0; e < ext; e++ {
				q.BatchedProof.ClaimedValues = append(q.BatchedProof.ClaimedValues, fr.Element{})
			}
			add(fmt.Sprintf("ClaimedValues:=append(0 x%d)", ext), q)
		}
		if nc > 0 {
			q = plkClone(p)
			q.BatchedProof.ClaimedValues = append(q.BatchedProof.ClaimedValues, q.BatchedProof.ClaimedValues[nc-1])
			add("ClaimedValues:=dup-last", q)
			q = plkClone(p)
			q.BatchedProof.ClaimedValues = q.BatchedProof.ClaimedValues[1:]
			add("ClaimedValues:=drop-first", q)
		}
	}
	nb := len(p.Bsb22Commitments)
	for k := 0; k < nb; k++ {
		q := plkClone(p)
		q.Bsb22Commitments = q.Bsb22Commitments[:k]
		add(fmt.Sprintf("Bsb22Commitments:=truncate(%d)", k), q)
	}
	{
		q := plkClone(p)
		q.Bsb22Commitments = append(q.Bsb22Commitments, curve.G1Affine{})
		add("Bsb22Commitments:=append(identity)", q)
		q = plkClone(p)
		q.Bsb22Commitments = append(q.Bsb22Commitments, g1gen)
		add("Bsb22Commitments:=append(generator)", q)
		if nb > 0 {
			q = plkClone(p)
			q.Bsb22Commitments = append(q.Bsb22Commitments, q.Bsb22Commitments[nb-1])
			add("Bsb22Commitments:=dup-last", q)
			q = plkClone(p)
			q.Bsb22Commitments = nil
			add("Bsb22Commitments:=nil", q)
		}
	}
	for i := 0; i < nb; i++ {
		for j := i + 1; j < nb; j++ {
			q := plkClone(p)
			q.Bsb22Commitments[i], q.Bsb22Commitments[j] = q.Bsb22Commitments[j], q.Bsb22Commitments[i]
			add(fmt.Sprintf("Bsb22Commitments:=swap(%d,%d)", i, j), q)
		}
	}
	for di, da := range donorsA {
		d := da.(*plk.Proof)
		if len(d.Bsb22Commitments) == nb && nb > 0 {
			q := plkClone(p)
			q.Bsb22Commitments = append([]curve.G1Affine{}, d.Bsb22Commitments...)
			add(fmt.Sprintf("Bsb22Commitments:=donor%d.Bsb22Commitments", di), q)
		}
	}
	return out
}

// plkDeclaredLens walks an encoded PLONK proof with the real decoder and
// returns the two declared slice lengths (claimed values, BSB22 commitments).
func plkDeclaredLens(b []byte) []uint32 {
	rd := bytes.NewReader(b)
	dec := curve.NewDecoder(rd)
	var pt curve.G1Affine
	for i := 0; i < 8; i++ {
		if dec.Decode(&pt) != nil {
			return nil
		}
	}
	off := int(dec.BytesRead())
	if off+4 > len(b) {
		return nil
	}
	l1 := binary.BigEndian.Uint32(b[off:])
	out := []uint32{l1}
	if l1 > cvapi.MaxDeclaredLen {
		return out
	}
	off += 4 + int(l1)*fr.Bytes
	if off > len(b) {
		return out
	}
	rd2 := bytes.NewReader(b[off:])
	dec2 := curve.NewDecoder(rd2)
	var e fr.Element
	if dec2.Decode(&pt) != nil || dec2.Decode(&e) != nil {
		return out
	}
	off += int(dec2.BytesRead())
	if off+4 > len(b) {
		return out
	}
	return append(out, binary.BigEndian.Uint32(b[off:]))
}

// plkPrefixOffsets returns the byte offsets of the two slice-length prefixes.
func plkPrefixOffsets(b []byte) []int {
	rd := bytes.NewReader(b)
	dec := curve.NewDecoder(rd)
	var pt curve.G1Affine
	for i := 0; i < 8; i++ {
		if dec.Decode(&pt) != nil {
			return nil
		}
	}
	off := int(dec.BytesRead())
	if off+4 > len(b) {
		return nil
	}
	out := []int{off}
	l1 := binary.BigEndian.Uint32(b[off:])
	if l1 > cvapi.MaxDeclaredLen {
		return out
	}
	off += 4 + int(l1)*fr.Bytes
	if off > len(b) {
		return out
	}
	dec2 := curve.NewDecoder(bytes.NewReader(b[off:]))
	var e fr.Element
	if dec2.Decode(&pt) != nil || dec2.Decode(&e) != nil {
		return out
	}
	off += int(dec2.BytesRead())
	if off+4 > len(b) {
		return out
	}
	return append(out, off)
}

func init() {
	Ops.PlonkPrefixOffsets = plkPrefixOffsets
	Ops.PlonkClone = func(p any) any { return plkClone(p.(*plk.Proof)) }
	Ops.PlonkSingleEdits = plkSingleEdits
	Ops.PlonkListEdits = plkListEdits
	Ops.PlonkProofEqual = func(a, b any) bool { return plkEqual(a.(*plk.Proof), b.(*plk.Proof)) }
	Ops.PlonkNbQcp = func(vk any) int { return len(vk.(*plk.VerifyingKey).Qcp) }
	Ops.PlonkDeclaredLens = plkDeclaredLens
}
