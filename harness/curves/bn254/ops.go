//go:build verif

package cv

import (
	"github.com/consensys/gnark/verifharness/internal/cvapi"
	_ "github.com/consensys/gnark/verifharness/internal/hooks/all"
)

// Ops is this curve's entry in the registry.
var Ops = &cvapi.Ops{ID: CurveID, Name: "bn254", Ext: map[string]any{}}
