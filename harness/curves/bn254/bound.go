//go:build verif

package cv

import (
	"fmt"
	"math/big"

	"github.com/consensys/gnark-crypto/ecc/bn254/fr"
	g16 "github.com/consensys/gnark/backend/groth16/bn254"
	plk "github.com/consensys/gnark/backend/plonk/bn254"

	"github.com/consensys/gnark/verifharness/internal/cvapi"
)

// plkBoundItems lists the byte strings a PLONK verifier must feed to its challenge hash
// before deriving the challenges: the key's permutation and selector commitments, every
// public input, and the proof's commitments.
func plkBoundItems(pa, vka any, pub []*big.Int) []cvapi.Item {
	p := pa.(*plk.Proof)
	vk := vka.(*plk.VerifyingKey)
	var out []cvapi.Item
	add := func(n string, b []byte) { out = append(out, cvapi.Item{Name: n, Bytes: append([]byte{}, b...)}) }
	for i := 0; i < 3; i++ {
		add(fmt.Sprintf("vk.S[%d]", i), vk.S[i].Marshal())
	}
	add("vk.Ql", vk.Ql.Marshal())
	add("vk.Qr", vk.Qr.Marshal())
	add("vk.Qm", vk.Qm.Marshal())
	add("vk.Qo", vk.Qo.Marshal())
	add("vk.Qk", vk.Qk.Marshal())
	for i := range vk.Qcp {
		add(fmt.Sprintf("vk.Qcp[%d]", i), vk.Qcp[i].Marshal())
	}
	for i, v := range pub {
		var e fr.Element
		e.SetBigInt(v)
		add(fmt.Sprintf("public[%d]", i), e.Marshal())
	}
	for i := 0; i < 3; i++ {
		b := p.LRO[i].RawBytes()
		add(fmt.Sprintf("proof.LRO[%d]", i), b[:])
	}
	zb := p.Z.RawBytes()
	add("proof.Z", zb[:])
	for i := range p.Bsb22Commitments {
		b := p.Bsb22Commitments[i].RawBytes()
		add(fmt.Sprintf("proof.Bsb22Commitments[%d]", i), b[:])
	}
	for i := 0; i < 3; i++ {
		b := p.H[i].RawBytes()
		add(fmt.Sprintf("proof.H[%d]", i), b[:])
	}
	return out
}

// g16BoundItems lists what a Groth16 verifier must feed to its hash-to-field function:
// every commitment and every public input committed to.
func g16BoundItems(pa, vka any, pub []*big.Int) []cvapi.Item {
	p := pa.(*g16.Proof)
	vk := vka.(*g16.VerifyingKey)
	var out []cvapi.Item
	for i := range vk.PublicAndCommitmentCommitted {
		if i < len(p.Commitments) {
			out = append(out, cvapi.Item{Name: fmt.Sprintf("proof.Commitments[%d]", i), Bytes: p.Commitments[i].Marshal()})
		}
		for _, w := range vk.PublicAndCommitmentCommitted[i] {
			if w-1 < len(pub) {
				var e fr.Element
				e.SetBigInt(pub[w-1])
				out = append(out, cvapi.Item{Name: fmt.Sprintf("public[%d] (committed by commitment %d)", w-1, i), Bytes: e.Marshal()})
			}
		}
	}
	return out
}

func init() {
	Ops.PlonkBoundItems = plkBoundItems
	Ops.G16BoundItems = g16BoundItems
}
