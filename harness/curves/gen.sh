#!/bin/bash
# Instantiates curves/bn254 (the hand-written original) for the other six curves
# by textual substitution, as gnark's own generator does for the backends.
set -e
cd "$(dirname "$0")"
for c in bls12-377 bls12-381 bls24-315 bls24-317 bw6-633 bw6-761; do
  up=$(echo "$c" | tr 'a-z-' 'A-Z_')
  mkdir -p "$c"
  for f in bn254/*.go; do
    out="$c/$(basename "$f")"
    sed -e "s/bn254/$c/g" -e "s/BN254/$up/g" "$f" > "$out.tmp$$"
    if ! cmp -s "$out.tmp$$" "$out" 2>/dev/null; then mv "$out.tmp$$" "$out"; else rm "$out.tmp$$"; fi
  done
  # remove stale files
  for f in "$c"/*.go; do [ -f "bn254/$(basename "$f")" ] || rm -f "$f"; done
done
