#!/bin/bash
# MANIFEST.setup_cmd: builds the harness from files on disk only (offline).
set -e
ROOT="$(cd "$(dirname "$0")" && pwd)"
export GOFLAGS=-mod=mod GOPROXY=off GOSUMDB=off GOTOOLCHAIN=local
mkdir -p "$ROOT/work" "$ROOT/evidence" "$ROOT/replay"
cd "$ROOT/harness"
cp -f /repo/go.sum go.sum
./curves/gen.sh
for g in ./c*/gen.sh; do [ -x "$g" ] && "$g"; done
go build -tags verif ./...
go vet -tags verif ./... >/dev/null 2>&1 || true
go test -tags verif -count=1 -run '^$' ./... >/dev/null
echo setup-ok
