#!/bin/bash
# ./mutcheck.sh <patch.diff> <Cxx> [quick|thorough]
# Self-validation helper: applies a seeded change to a scratch worktree of /repo's HEAD
# (never to /repo itself), runs one check against it, prints the verdict, removes the worktree.
patch="$1"; prop="$2"; tier="${3:-quick}"
id="mut-$$"
wt="/tmp/$id"
git -C /repo worktree add -q "$wt" HEAD || exit 2
trap 'git -C /repo worktree remove --force "$wt" >/dev/null 2>&1; rm -rf "/tmp/$id-out"' EXIT
git -C "$wt" apply "$patch" || { echo "PATCH DOES NOT APPLY"; exit 2; }
VERIF_REPO="$wt" VERIF_OUT="/tmp/$id-out" "$(dirname "$0")/check" "$prop" "$tier" | grep -E "VIOLATION|class=|KNOWN|SUMMARY|BROKEN" | cut -c1-400 | head -${MUTCHECK_LINES:-12}
echo "exit=${PIPESTATUS[0]}"
