#!/bin/bash
# ./seedverify.sh <seed dir (patch.diff, run.sh, meta.json)> <seeded id> "<caught-by text>"
# Confirms a seeded change myself in a scratch worktree: demo passes on the pristine tree,
# patch applies and builds, demo fails with it, the touched packages' own tests + internal/stats
# still pass; then files it under /verif/seeded/<id>/.
src="$1"; id="$2"; caught="$3"
export GOFLAGS=-mod=mod GOPROXY=off GOSUMDB=off GOTOOLCHAIN=local
wt="/tmp/seedv-$$"
git -C /repo worktree add -q "$wt" HEAD || exit 2
trap 'git -C /repo worktree remove --force "$wt" >/dev/null 2>&1' EXIT
log="/verif/work/seedverify-$id.log"; : > "$log"
echo "== demo on pristine tree" >> "$log"
( cd "$src" && GNARK_DIR="$wt" bash ./run.sh "$wt" ) >> "$log" 2>&1; pristine=$?
git -C "$wt" apply "$src/patch.diff" || { echo "$id: PATCH DOES NOT APPLY"; exit 2; }
echo "== go build" >> "$log"
( cd "$wt" && go build ./... ) >> "$log" 2>&1; build=$?
echo "== demo on patched tree" >> "$log"
( cd "$src" && GNARK_DIR="$wt" bash ./run.sh "$wt" ) >> "$log" 2>&1; patched=$?
pkgs=$(git -C "$wt" diff --name-only | grep '\.go$' | xargs -n1 dirname | sort -u | sed 's#^#./#' | tr '\n' ' ')
echo "== go test $pkgs ./internal/stats/" >> "$log"
( cd "$wt" && go test -count=1 -timeout 60m $pkgs ./internal/stats/ ) >> "$log" 2>&1; tests=$?
echo "$id: demo-on-pristine exit=$pristine (want 0)  build=$build (want 0)  demo-on-patched exit=$patched (want !=0)  tests-of-touched-packages+stats exit=$tests (want 0)"
if [ $pristine -eq 0 ] && [ $build -eq 0 ] && [ $patched -ne 0 ] && [ $tests -eq 0 ]; then
  dst="/verif/seeded/$id"; mkdir -p "$dst"
  cp -r "$src"/* "$dst"/
  python3 - "$dst/meta.json" "$pkgs" "$caught" <<'PY'
import json,sys
p,pkgs,caught=sys.argv[1:4]
m=json.load(open(p))
m["confirmed_by_builder"]={"demo_passes_on_pristine_tree":True,"patch_applies_and_builds":True,"demo_fails_with_patch":True,
  "existing_tests_run_with_patch":"go test -count=1 "+pkgs+"./internal/stats/ => ok","how":"scratch git worktree of /repo HEAD (seedverify.sh)"}
m["caught_by"]=caught
json.dump(m,open(p,"w"),indent=1)
PY
  echo "$id: filed under $dst"
else
  echo "$id: NOT CONFIRMED, see $log"
fi
