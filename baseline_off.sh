#!/bin/bash
# Runs gnark's own test suite with the verif build tag OFF (hooks compiled out).
# Prints a pass/fail summary per test; compare with /root/.vp/BASELINE.json.
export GOFLAGS=-mod=mod GOPROXY=off GOSUMDB=off GOTOOLCHAIN=local
cd /repo || exit 2
go test -mod=mod -json -vet=off -count=1 -timeout 25m ./... > /verif/work/baseline_off.json 2>/verif/work/baseline_off.err
python3 - <<'PY'
import json
res={}
for l in open('/verif/work/baseline_off.json'):
    try: e=json.loads(l)
    except Exception: continue
    if e.get('Test') and e.get('Action') in('pass','fail','skip'):
        res[e['Package']+'::'+e['Test']]=e['Action']
import collections
c=collections.Counter(res.values())
print('baseline (verif tag off):',dict(c))
base=json.load(open('/root/.vp/BASELINE.json'))
missing=[t for t in base['stable_pass'] if res.get(t)!='pass']
print('stable_pass tests not passing now:',len(missing))
for t in missing[:50]: print('  ',t,res.get(t))
raise SystemExit(1 if missing else 0)
PY
