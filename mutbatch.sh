#!/bin/bash
# ./mutbatch.sh <listfile>   lines: <patch> <Cxx> [tier]
while read -r patch prop tier; do
  [ -z "$patch" ] && continue
  echo "=== $patch $prop ${tier:-quick} $(date +%H:%M:%S)"
  MUTCHECK_LINES=6 /verif/mutcheck.sh "$patch" "$prop" "${tier:-quick}" 2>&1 | cut -c1-300
done < "$1"
